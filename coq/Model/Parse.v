(* Model of the decoders of package openflow13 / common and of the entry point Parse.
   Every slice / index operation of the Go code is a primitive that panics out of bounds
   (exact-capacity buffers), the explicit length checks of the Go code are the guards, and
   errors are propagated, swallowed or logged exactly where the Go code does so (several
   decoders ignore the error of a nested decoder and keep a partial value).  A decoder gets
   the rest of the buffer, as in Go, and its caller advances by the decoded value's Len().
   Results are wire trees (Model/Wire.v), re-encoded by [wire].  Definitions only. *)
From Coq Require Import NArith List Bool.
From Coq.Strings Require Import Byte.
From LOF Require Import Base.Bytes Base.Res Model.Wire Model.Proto.
Import ListNotations.
Local Open Scope N_scope.

(* a value together with the error flag of decoders that return (value, err) and whose
   callers may go on with the partial value *)
Definition pres := (tree * bool)%type.

(* common.Header.UnmarshalBinary: len < 4 -> error; otherwise reads 8 bytes *)
Definition dec_ofheader (d : list byte) : res (list val) :=
  if blen d <? 4 then Err else
  (v <- at_ d 0 ;; t <- at_ d 1 ;; l <- uat 2 d 2 ;; x <- uat 4 d 4 ;; Ok [VN v; VN t; VN l; VN x])%res.
(* callers that ignore the header's error keep the zero header *)
Definition ofheader_lenient (d : list byte) : res (list val) :=
  match dec_ofheader d with Err => Ok [VN 0; VN 0; VN 0; VN 0] | r => r end.
Definition hdr_len (hv : list val) : N := vnum hv 2.

(* ---------------------------------------------------------------- match fields *)
Inductive short := PanicShort | ErrShort | FillShort.

(* DecodeMatchField: payload width and what happens on short data; None = no decoder *)
Definition mf_payload (c f len : N) (hm : bool) : option (N * short) :=
  let ba := Some (if hm then len / 2 else len, ErrShort) in
  if N.eqb c 32768 then
    match f with
    | 0 | 34 | 28 => Some (4, PanicShort) | 2 | 38 => Some (8, PanicShort)
    | 3 | 4 | 32 | 33 => Some (6, FillShort) | 5 | 6 | 13 | 14 | 15 | 16 | 17 | 18 | 21 | 42 => Some (2, PanicShort)
    | 8 | 10 | 36 => Some (1, PanicShort) | 11 | 12 => Some (4, PanicShort)
    | 19 | 20 | 29 | 30 => Some (1, ErrShort) | 22 | 23 => Some (4, ErrShort) | 24 | 25 => Some (6, ErrShort)
    | 26 | 27 | 31 => Some (16, FillShort) | 43 => Some (4, PanicShort)
    | _ => None
    end
  else if N.eqb c 1 then
    match f with
    | 0 | 1 | 2 | 3 | 4 | 5 | 6 | 7 | 8 | 9 | 10 | 11 | 12 | 13 | 14 | 15 | 33 | 37 | 105 | 107 => Some (4, ErrShort)
    | 17 | 18 => Some (6, ErrShort) | 19 | 20 | 23 | 109 | 110 | 122 | 123 => Some (16, FillShort)
    | 21 | 22 => Some (1, ErrShort) | 24 | 25 => Some (6, FillShort) | 27 => Some (4, PanicShort)
    | 31 | 32 | 120 | 121 => Some (4, PanicShort) | 106 => Some (2, ErrShort) | 108 => Some (16, FillShort)
    | 119 => Some (1, PanicShort) | 124 | 125 => Some (2, PanicShort)
    | 40 | 41 | 42 | 43 | 44 | 45 | 46 | 47 | 111 | 112 | 113 | 114 => ba
    | _ => None
    end
  else if N.eqb c 65535 then
    match f with 42 => Some (2, PanicShort) | 43 => Some (4, PanicShort) | _ => None end
  else if N.eqb c 0 then
    match f with 16 | 17 => Some (4, ErrShort) | _ => None end
  else None.

(* which (class, field) pairs end in a returned error rather than a nil-interface panic *)
Definition mf_missing_is_error (c f : N) : bool :=
  N.eqb c 32768 ||
  (N.eqb c 1 && negb (existsb (N.eqb f) [16; 26; 28; 29; 30; 34; 35; 36; 38; 39; 104])) ||
  negb (N.eqb c 1 || N.eqb c 65535).

Definition take_payload (w : N) (s : short) (d : list byte) : res (list byte) :=
  match s with
  | PanicShort => if blen d <? w then Panic else Ok (firstn (N.to_nat w) d)
  | ErrShort => if blen d <? w then Err else Ok (firstn (N.to_nat w) d)
  | FillShort => Ok (fit (N.to_nat w) d)
  end.

(* MatchField.UnmarshalBinary *)
Definition dec_mf (d : list byte) : res tree :=
  (c <- uat 2 d 0 ;; fh <- at_ d 2 ;; len <- at_ d 3 ;;
   let f := fh / 2 in let hm := N.odd fh in
   '(n, pre) <- (if N.eqb c 65535 then
                   e <- uat 4 d 4 ;; if N.eqb e 1330529792 then Ok (8, firstn 4 (skipn 4 d)) else Err
                 else Ok (4, [])) ;;
   match mf_payload c f len hm with
   | None => if mf_missing_is_error c f then Err else Panic
   | Some (w, s) =>
     r1 <- from d n ;; v <- take_payload w s r1 ;;
     if hm then r2 <- from d (n + w) ;; m <- take_payload w s r2 ;;
                Ok (T KMatchField [VN c; VN fh; VN len; VB (pre ++ v); VB m] [])
     else Ok (T KMatchField [VN c; VN fh; VN len; VB (pre ++ v); VB []] [])
   end)%res.

(* Match.UnmarshalBinary: fields until Length; the first failing field ends the loop with
   the error, the fields before it are kept *)
Fixpoint dec_mfs (fuel : nat) (d : list byte) (n lim : N) : res (list tree * bool) :=
  match fuel with
  | O => Fuel
  | S f =>
    if lim <=? n then Ok ([], false) else
    (r <- from d n ;;
     match dec_mf r with
     | Ok t => '(l, e) <- dec_mfs f d (n + glen t) lim ;; Ok (t :: l, e)
     | Err => Ok ([], true)
     | Panic => Panic
     | Fuel => Fuel
     end)%res
  end.

Definition dec_match (d : list byte) : res pres :=
  (ty <- uat 2 d 0 ;; len <- uat 2 d 2 ;;
   '(fs, e) <- dec_mfs (S (length d)) d 4 len ;;
   Ok (T KMatch [VN ty; VN len] fs, e))%res.

(* an error that leaves a nil value behind which is then dereferenced *)
Definition err_is_panic {A} (r : res A) : res A := match r with Err => Panic | x => x end.

(* ---------------------------------------------------------------- actions *)
Definition nxhdr_vals (d : list byte) : res (list val) :=     (* NXActionHeader.UnmarshalBinary, len >= 10 known *)
  (ty <- uat 2 d 0 ;; len <- uat 2 d 2 ;; v <- uat 4 d 4 ;; st <- uat 2 d 8 ;; Ok [VN ty; VN len; VN v; VN st])%res.

(* learn flow_mod_spec *)
Definition dec_lspec (d : list byte) : res tree :=
  if blen d <? 2 then Err else
  (w <- uat 2 d 0 ;;
   let nbits := N.land w 2047 in
   let src := N.testbit w 13 in let dst := N.testbit w 11 in let out := N.testbit w 12 in
   '(sbytes, n) <- (if src then let k := 2 * ((nbits + 15) / 16) in b <- sl d 2 (2 + k) ;; Ok (b, 2 + k)
                    else r <- from d 2 ;; if blen r <? 6 then Err else b <- sl d 2 8 ;; Ok (b, 8)) ;;
   dbytes <- (if out then Ok [] else r <- from d n ;; if blen r <? 6 then Err else sl d n (n + 6)) ;;
   (* the header word as MarshalBinary rebuilds it from the decoded flags *)
   let w' := nbits + (if src && negb out then 8192 else 0) + (if dst then 2048 else 0) + (if out then 4096 else 0) in
   Ok (T KLearnSpec [VN w'; VB (sbytes ++ dbytes)] []))%res.

Fixpoint dec_lspecs (fuel : nat) (d : list byte) (n len : N) : res (list tree) :=
  match fuel with
  | O => Fuel
  | S f =>
    if (len <=? n) || (len - n <? 8) then Ok [] else
    (r <- from d n ;; s <- dec_lspec r ;; l <- dec_lspecs f d (n + glen s) len ;; Ok (s :: l))%res
  end.

(* the fixed-layout Nicira actions: fields after the 10-byte header *)
Definition nx_fixed (sub : N) : option (kind * list (N * N)) :=   (* (offset, width) of each value *)
  match sub with
  | 34 => Some (KNxConjunction, [(10, 1); (11, 1); (12, 4)])
  | 7 => Some (KNxRegLoad, [(10, 2); (12, 4); (16, 8)])
  | 6 => Some (KNxRegMove, [(10, 2); (12, 2); (14, 2); (16, 4); (20, 4)])
  | 1 => Some (KNxResubmit, [(10, 2)])
  | 14 | 44 => Some (KNxResubmitTable, [(10, 2); (12, 1)])
  | 15 | 32 => Some (KNxOutputReg, [(10, 2); (12, 4); (16, 2)])
  | 43 => Some (KNxCtClear, [])
  | 18 => Some (KNxDecTtl, [(10, 2)])
  | 20 => Some (KNxController, [(10, 2); (12, 2); (14, 1)])
  | _ => None
  end.

Fixpoint read_vals (d : list byte) (l : list (N * N)) : res (list val) :=
  match l with
  | [] => Ok []
  | (o, w) :: r => (x <- uat w d o ;; vs <- read_vals d r ;; Ok (VN x :: vs))%res
  end.

Definition nat_part (present bit w : N) (d : list byte) (st : res (list tree * N)) : res (list tree * N) :=
  ('(ts, n) <- st ;;
   if N.testbit present bit then b <- sl d n (n + w) ;; Ok (ts ++ [T KRaw [VB b] []], n + w) else Ok (ts, n))%res.

(* the nested actions of a conntrack action, until its own length: an element's error is the
   action's error, an element of reported size 0 an error *)
Fixpoint ct_loop (dec : list byte -> res tree) (f : nat) (d : list byte) (len n : N) : res (list tree * N) :=
  match f with
  | O => Fuel
  | S f' => if len <=? n then Ok ([], n) else
            (r <- from d n ;;
             match dec r with
             | Ok a => if N.eqb (glen a) 0 then Err else
                       '(l, n') <- ct_loop dec f' d len (n + glen a) ;; Ok (a :: l, n')
             | Err => Err | Panic => Panic | Fuel => Fuel
             end)%res
  end.

Fixpoint dec_action (fuel : nat) (d : list byte) : res tree :=
  match fuel with
  | O => Fuel
  | S fuel' =>
    (t <- uat 2 d 0 ;;
     let hdr4 := (_ <- sl d 0 4 ;; ty <- uat 2 d 0 ;; len <- uat 2 d 2 ;; Ok [VN ty; VN len]) in   (* ActionHeader from data[:4] *)
     let hdr_checked := (if blen d <? 4 then Err else ty <- uat 2 d 0 ;; len <- uat 2 d 2 ;; Ok [VN ty; VN len]) in
     if N.eqb t 0 then
       if blen d <? 16 then Err else
       hv <- hdr_checked ;; p <- uat 4 d 4 ;; ml <- uat 2 d 8 ;; _ <- sl d 10 16 ;; Ok (T KActOutput (hv ++ [VN p; VN ml]) [])
     else if (N.eqb t 11 || N.eqb t 12 || N.eqb t 16 || N.eqb t 27 || N.eqb t 24)%bool then
       hv <- hdr4 ;; Ok (T KActDecNwTtl hv [])
     else if (N.eqb t 15 || N.eqb t 23)%bool then       (* set-mpls-ttl, set-nw-ttl: header codec only *)
       hv <- hdr_checked ;; Ok (T KActHeader hv [])
     else if (N.eqb t 17 || N.eqb t 19 || N.eqb t 26)%bool then
       hv <- hdr4 ;; e <- uat 2 d 4 ;; Ok (T KActPush (hv ++ [VN e]) [])
     else if N.eqb t 18 then hv <- hdr4 ;; Ok (T KActPopVlan hv [])
     else if N.eqb t 20 then hv <- hdr4 ;; e <- uat 2 d 4 ;; Ok (T KActPopMpls (hv ++ [VN e]) [])
     else if N.eqb t 21 then
       if blen d <? 8 then Err else hv <- hdr4 ;; q <- uat 4 d 4 ;; Ok (T KActSetQueue (hv ++ [VN q]) [])
     else if N.eqb t 22 then
       if blen d <? 8 then Err else hv <- hdr_checked ;; g <- uat 4 d 4 ;; Ok (T KActGroup (hv ++ [VN g]) [])
     else if N.eqb t 25 then
       (* the header's error is overwritten by the field's result *)
       let hv := match hdr_checked with Ok v => v | _ => [VN 0; VN 0] end in
       (* a field that fails to decode leaves a nil value behind, whose Len() the action calls *)
       r <- from d 4 ;; f <- err_is_panic (dec_mf r) ;; Ok (T KActSetField hv [f])
     else if N.eqb t 65535 then
       if blen d <? 10 then Err else
       vendor <- uat 4 d 4 ;;
       if negb (N.eqb vendor 8992) then Panic else     (* a stays nil *)
       hv <- nxhdr_vals d ;; sub <- uat 2 d 8 ;; let len := vnum hv 1 in
       if N.eqb sub 35 then
         if blen d <? len then Err else
         fl <- uat 2 d 10 ;; zs <- uat 4 d 12 ;; zo <- uat 2 d 16 ;; rc <- at_ d 18 ;; _ <- sl d 19 22 ;; alg <- uat 2 d 22 ;;
         '(ks, n) <- ct_loop (dec_action fuel') (S (length d)) d len 24 ;;
         Ok (T KNxConnTrack ([VN (vnum hv 0); VN (n mod 65536); VN (vnum hv 2); VN (vnum hv 3)] ++ [VN fl; VN zs; VN zo; VN rc; VN alg]) ks)
       else if N.eqb sub 36 then
         let rl := round8 len mod 65536 in
         if blen d <? rl then Err else
         fl <- uat 2 d 12 ;; pr <- uat 2 d 14 ;;
         '(ps, _) <- nat_part pr 5 2 d (nat_part pr 4 2 d (nat_part pr 3 16 d (nat_part pr 2 16 d (nat_part pr 1 4 d (nat_part pr 0 4 d (Ok ([], 16))))))) ;;
         Ok (T KNxNat ([VN (vnum hv 0); VN rl; VN (vnum hv 2); VN (vnum hv 3)] ++ [VN fl; VN pr]) ps)
       else if N.eqb sub 16 then
         if blen d <? len then Err else
         vs <- read_vals d [(10, 2); (12, 2); (14, 2); (16, 8); (24, 2); (26, 1); (28, 2); (30, 2)] ;;
         ss <- dec_lspecs (S (length d)) d 32 len ;;
         Ok (T KNxLearn (hv ++ vs) ss)
       else if N.eqb sub 8 then
         if blen d <? len then Err else note <- sl d 10 len ;; Ok (T KNxNote (hv ++ [VB note]) [])
       else if N.eqb sub 33 then
         if blen d <? len then Err else r <- from d 10 ;; f <- dec_mf r ;; Ok (T KNxRegLoad2 hv [f])
       else if N.eqb sub 21 then
         if blen d <? len then Err else
         c <- uat 2 d 10 ;; ids <- sl d 16 (16 + 2 * c) ;; Ok (T KNxDecTtlCntIds (hv ++ [VN c; VB ids]) [])
       else
         match nx_fixed sub with
         | None => Panic                                  (* a stays nil *)
         | Some (k, offs) =>
           if blen d <? len then Err else
           (* reg_move: three numbers, then the two field headers need 4 bytes each, else an error *)
           if N.eqb sub 6 && (blen d <? 24) then (_ <- uat 2 d 14 ;; _ <- from d 20 ;; Err) else
           vs <- read_vals d offs ;;
           (* reg_load / output_reg read the field header through data[12:16] *)
           _ <- (if (N.eqb sub 7 || N.eqb sub 15 || N.eqb sub 32)%bool then sl d 12 16 else Ok []) ;;
           Ok (T k (hv ++ vs) [])
         end
     else Panic)%res                                      (* unknown action type: a stays nil *)
  end.

(* a list of actions until [lim] (apply/write actions, bucket, packet-out): the element
   decoder's error ends the loop with an error; an element of reported size 0 is an error *)
Fixpoint dec_actions (fuel : nat) (d : list byte) (n lim : N) : res (list tree * bool) :=
  match fuel with
  | O => Fuel
  | S f =>
    if lim <=? n then Ok ([], false) else
    (r <- from d n ;;
     match dec_action (S (length d)) r with
     | Ok a => if N.eqb (glen a) 0 then Ok ([], true) else '(l, e) <- dec_actions f d (n + glen a) lim ;; Ok (a :: l, e)
     | Err => Ok ([], true)
     | Panic => Panic
     | Fuel => Fuel
     end)%res
  end.

(* ---------------------------------------------------------------- instructions, buckets *)
(* DecodeInstr drops the decoder's error and returns what was decoded *)
Definition dec_instr (d : list byte) : res tree :=
  (t <- uat 2 d 0 ;;
   let hdr4 := (_ <- sl d 0 4 ;; ty <- uat 2 d 0 ;; len <- uat 2 d 2 ;; Ok [VN ty; VN len]) in
   if N.eqb t 1 then hv <- hdr4 ;; tb <- at_ d 4 ;; _ <- sl d 5 8 ;; Ok (T KInstrGoto (hv ++ [VN tb]) [])
   else if N.eqb t 2 then hv <- hdr4 ;; _ <- sl d 4 8 ;; m <- uat 8 d 8 ;; k <- uat 8 d 16 ;; Ok (T KInstrWriteMeta (hv ++ [VN m; VN k]) [])
   else if (N.eqb t 3 || N.eqb t 4 || N.eqb t 5)%bool then
     hv <- hdr4 ;; '(acts, _) <- dec_actions (S (length d)) d 8 (vnum hv 1) ;; Ok (T KInstrActions hv acts)
   else if N.eqb t 6 then
     (* meter: the embedded header codec wants exactly 4 bytes, its error is dropped *)
     if N.eqb (blen d) 4 then ty <- uat 2 d 0 ;; len <- uat 2 d 2 ;; Ok (T KActHeader [VN ty; VN len] [])
     else Ok (T KActHeader [VN 0; VN 0] [])
   else Panic)%res.

Fixpoint dec_instrs (fuel : nat) (d : list byte) (n lim : N) : res (list tree * bool) :=
  match fuel with
  | O => Fuel
  | S f =>
    if lim <=? n then Ok ([], false) else
    (r <- from d n ;; i <- dec_instr r ;;
     if N.eqb (glen i) 0 then Ok ([], true) else '(l, e) <- dec_instrs f d (n + glen i) lim ;; Ok (i :: l, e))%res
  end.

Definition dec_bucket (d : list byte) : res pres :=
  (len <- uat 2 d 0 ;; w <- uat 2 d 2 ;; p <- uat 4 d 4 ;; g <- uat 4 d 8 ;;
   '(acts, e) <- dec_actions (S (length d)) d 16 len ;;
   Ok (T KBucket [VN len; VN w; VN p; VN g] acts, e))%res.

(* group-mod ignores a bucket's error *)
Fixpoint dec_buckets (fuel : nat) (d : list byte) (n lim : N) : res (list tree) :=
  match fuel with
  | O => Fuel
  | S f =>
    if lim <=? n then Ok [] else
    (r <- from d n ;; '(b, _) <- dec_bucket r ;; l <- dec_buckets f d (n + glen b) lim ;; Ok (b :: l))%res
  end.

(* ---------------------------------------------------------------- bodies *)
Definition dec_phyport (d : list byte) : res tree :=
  (p <- uat 4 d 0 ;; _ <- sl d 4 8 ;; hw <- sl d 8 14 ;; _ <- sl d 14 16 ;; nm <- sl d 16 32 ;;
   vs <- read_vals d [(32, 4); (36, 4); (40, 4); (44, 4); (48, 4); (52, 4); (56, 4); (60, 4)] ;;
   Ok (T KPhyPort ([VN p; VB hw; VB nm] ++ vs) []))%res.

Definition dec_flowstats_req (k : kind) (keep_err : bool) (d : list byte) : res pres :=
  (tb <- at_ d 0 ;; _ <- sl d 1 4 ;; op <- uat 4 d 4 ;; og <- uat 4 d 8 ;; _ <- sl d 12 16 ;; c <- uat 8 d 16 ;; cm <- uat 8 d 24 ;;
   r <- from d 32 ;; '(m, e) <- dec_match r ;;
   Ok (T k [VN tb; VN op; VN og; VN c; VN cm] [m], keep_err && e))%res.

Definition dec_flowstats (d : list byte) : res pres :=
  (vs <- read_vals d [(0, 2); (2, 1); (3, 1); (4, 4); (8, 4); (12, 2); (14, 2); (16, 2); (18, 2)] ;;
   _ <- sl d 20 24 ;; ws <- read_vals d [(24, 8); (32, 8); (40, 8)] ;;
   r <- from d 48 ;; '(m, e) <- dec_match r ;;
   '(is, _) <- dec_instrs (S (length d)) d (48 + glen m) (vnum vs 0) ;;
   Ok (T KFlowStats (vs ++ ws) (m :: is), e))%res.

(* the statistics records that are decoded through new(T): their pad slices are nil, so the
   fields are read right after the first field (known finding D13) *)
Definition dec_portstats (d : list byte) : res tree :=
  (p <- uat 2 d 0 ;; _ <- from d 2 ;;
   vs <- read_vals d [(2, 8); (10, 8); (18, 8); (26, 8); (34, 8); (42, 8); (50, 8); (58, 8); (66, 8); (74, 8); (82, 8); (90, 8)] ;;
   Ok (T KPortStats (VN p :: vs) []))%res.
Definition dec_tablestats (d : list byte) : res tree :=
  (t <- at_ d 0 ;; _ <- from d 1 ;; vs <- read_vals d [(1, 4); (5, 4); (9, 4); (13, 8); (21, 8)] ;; Ok (T KTableStats (VN t :: vs) []))%res.
Definition dec_queuestats (d : list byte) : res tree :=
  (p <- uat 2 d 0 ;; _ <- from d 2 ;; vs <- read_vals d [(2, 4); (6, 8); (14, 8); (22, 8)] ;; Ok (T KQueueStats (VN p :: vs) []))%res.
Definition dec_aggstats (d : list byte) : res tree :=
  (vs <- read_vals d [(0, 8); (8, 8); (16, 4)] ;; _ <- from d 20 ;; Ok (T KAggStats vs []))%res.
Definition dec_descstats (d : list byte) : res tree :=
  (a <- from d 0 ;; b <- from d 256 ;; c <- from d 512 ;; s <- from d 768 ;; e <- from d 800 ;;
   Ok (T KDescStats [VB (fit 256 a); VB (fit 256 b); VB (fit 256 c); VB (fit 32 s); VB (fit 256 e)] []))%res.

Fixpoint dec_tlvmaps (fuel : nat) (d : list byte) (n : N) : res (list tree) :=
  match fuel with
  | O => Fuel
  | S f =>
    if blen d <=? n then Ok [] else
    (r <- from d n ;; if blen r <? 8 then Err else
     vs <- read_vals r [(0, 2); (2, 1); (3, 1); (4, 2)] ;; l <- dec_tlvmaps f d (n + 8) ;; Ok (T KTlvMap vs [] :: l))%res
  end.

Fixpoint dec_ports (f : nat) (d : list byte) (n : N) : res (list tree) :=
  match f with
  | O => Fuel
  | S f' => if blen d <=? n then Ok [] else (r <- from d n ;; p <- dec_phyport r ;; l <- dec_ports f' d (n + 64) ;; Ok (p :: l))%res
  end.

(* the records of a multipart reply until the header's length; a record of size 0 ends the
   loop with an error; the error of the last record is what is returned *)
Fixpoint dec_mprecords (f : nat) (d : list byte) (mt lim n : N) : res (list tree * bool) :=
  match f with
  | O => Fuel
  | S f' =>
    if lim <=? n then Ok ([], false) else
    (r <- from d n ;;
     '(t, e) <- (if N.eqb mt 2 then x <- dec_aggstats r ;; Ok (x, false)
                 else if N.eqb mt 0 then x <- dec_descstats r ;; Ok (x, false)
                 else if N.eqb mt 1 then dec_flowstats r
                 else if N.eqb mt 4 then x <- dec_portstats r ;; Ok (x, false)
                 else if N.eqb mt 3 then x <- dec_tablestats r ;; Ok (x, false)
                 else if N.eqb mt 5 then x <- dec_queuestats r ;; Ok (x, false)
                 else Panic) ;;
     if N.eqb (glen t) 0 then Ok ([t], true) else
     '(l, e') <- dec_mprecords f' d mt lim (n + glen t) ;;
     Ok (t :: l, match l with [] => e | _ => e' end))%res
  end.

(* ---------------------------------------------------------------- messages *)
(* hello elements: a version bitmap takes its bitmaps from its own length; any other element
   is skipped by its length rounded up to 8; an element shorter than its header is an error *)
Fixpoint dec_hello_elems (fuel : nat) (d : list byte) (n : N) : res (list tree) :=
  match fuel with
  | O => Fuel
  | S f =>
    if blen d <=? n then Ok [] else
    (r <- from d n ;;
     if blen r <? 4 then Err else
     ty <- uat 2 r 0 ;; len <- uat 2 r 2 ;;
     if (len <? 4) || (blen r <? len) then Err else
     let adv := N.min (round8 len) (blen r) in
     if N.eqb ty 1 then
       bm <- sl r 4 (4 + (len - 4) / 4 * 4) ;; l <- dec_hello_elems f d (n + adv) ;;
       Ok (T KHelloElemBitmap [VN ty; VN (4 + (len - 4) / 4 * 4); VB bm] [] :: l)
     else dec_hello_elems f d (n + adv))%res
  end.

Section WithParse.
  (* Parse, for the message embedded in a bundle-add *)
  Variable parse_inner : list byte -> res tree.

  Fixpoint dec_props (fuel : nat) (d : list byte) (n : N) : res (list tree) :=
    match fuel with
    | O => Fuel
    | S f =>
      if blen d <=? n then Ok [] else
      (r <- from d n ;; if blen r <? 12 then Err else
       vs <- read_vals r [(0, 2); (2, 2); (4, 4); (8, 4)] ;;
       let len := vnum vs 1 in
       data <- (if (12 <? len) && (len <=? blen r) then sl r 12 len else Ok []) ;;
       l <- dec_props f d (n + 12 + blen data) ;; Ok (T KBundleProp (vs ++ [VB data]) [] :: l))%res
    end.

  Definition dec_vendor_data (et : N) (d : list byte) : res (list tree) :=
    (if N.eqb et 20 then if blen d <? 8 then Err else id <- uat 2 d 6 ;; Ok [T KControllerID [VN id] []]
     else if N.eqb et 24 then if blen d <? 8 then Err else c <- uat 2 d 0 ;; ms <- dec_tlvmaps (S (length d)) d 8 ;; Ok [T KTlvTableMod [VN c] ms]
     else if N.eqb et 26 then sp <- uat 4 d 0 ;; fl <- uat 2 d 4 ;; _ <- sl d 6 16 ;; ms <- dec_tlvmaps (S (length d)) d 16 ;; Ok [T KTlvTableReply [VN sp; VN fl] ms]
     else if N.eqb et 2300 then if blen d <? 8 then Err else vs <- read_vals d [(0, 4); (4, 2); (6, 2)] ;; Ok [T KBundleCtrl vs []]
     else if N.eqb et 2301 then
       (* the embedded message ends where its own header says (fix D47); the properties follow *)
       id <- uat 4 d 0 ;; fl <- uat 2 d 6 ;;
       if blen d <? 12 then Err else
       ml <- uat 2 d 10 ;;
       if (ml <? 8) || (blen d - 8 <? ml) then Err else
       r <- sl d 8 (8 + ml) ;; m <- parse_inner r ;;
       ps <- dec_props (S (length d)) d (8 + ml) ;; Ok [T KBundleAdd [VN id; VN fl] (m :: ps)]
     else Panic)%res.

  Definition parse_body (d : list byte) : res tree :=
    (ty <- at_ d 1 ;;
     if N.eqb ty 0 then
       hv <- dec_ofheader d ;; es <- dec_hello_elems (S (length d)) d 8 ;; Ok (T KHello hv es)
     else if N.eqb ty 1 then
       hv <- ofheader_lenient d ;; et <- uat 2 d 8 ;; c <- uat 2 d 10 ;;
       if N.eqb et 65535 then
         hv' <- dec_ofheader d ;; x <- uat 4 d 12 ;; rest <- from d 16 ;; Ok (T KVendorError (hv' ++ [VN et; VN c; VN x; VB rest]) [])
       else rest <- from d 12 ;; Ok (T KError (hv ++ [VN et; VN c; VB rest]) [])
     else if (N.eqb ty 2 || N.eqb ty 3 || N.eqb ty 5 || N.eqb ty 7 || N.eqb ty 20 || N.eqb ty 21)%bool then
       hv <- dec_ofheader d ;; Ok (T KHeaderOnly hv [])
     else if N.eqb ty 4 then
       if blen d <? 16 then Err else
       hv <- ofheader_lenient d ;; v <- uat 4 d 8 ;; et <- uat 4 d 12 ;;
       if 16 <? hdr_len hv then body <- sl d 16 (hdr_len hv) ;; ks <- dec_vendor_data et body ;; Ok (T KVendor (hv ++ [VN v; VN et]) ks)
       else Ok (T KVendor (hv ++ [VN v; VN et]) [])
     else if N.eqb ty 6 then
       hv <- dec_ofheader d ;; dp <- from d 8 ;; vs <- read_vals d [(16, 4); (20, 1); (21, 1)] ;; _ <- from d 22 ;; ws <- read_vals d [(24, 4); (28, 4)] ;;
       ps <- dec_ports (S (length d)) d 32 ;;
       Ok (T KFeatures (hv ++ [VB (fit 8 dp)] ++ vs ++ ws) ps)
     else if (N.eqb ty 8 || N.eqb ty 9)%bool then
       hv <- dec_ofheader d ;; f <- uat 2 d 8 ;; m <- uat 2 d 10 ;; Ok (T KSwitchConfig (hv ++ [VN f; VN m]) [])
     else if N.eqb ty 10 then
       hv <- dec_ofheader d ;; vs <- read_vals d [(8, 4); (12, 2); (14, 1); (15, 1); (16, 8)] ;;
       r <- from d 24 ;; '(m, e) <- dec_match r ;; if e then Err else
       pl <- from d (24 + glen m + 2) ;; _ <- from d (24 + glen m) ;;
       match pl with
       | [] => Ok (T KPacketIn (hv ++ vs) [m; T KPad2 [] []; T KEth [VB []; VB []] [T KU16 [VN 0] []]])   (* no payload: the zero Ethernet value *)
       | _ => eth <- dec_eth pl ;; Ok (T KPacketIn (hv ++ vs) [m; T KPad2 [] []; eth])
       end
     else if N.eqb ty 11 then
       hv <- dec_ofheader d ;; vs <- read_vals d [(8, 8); (16, 2); (18, 1); (19, 1); (20, 4); (24, 4); (28, 2); (30, 2); (32, 8); (40, 8)] ;;
       r <- from d 48 ;; '(m, e) <- dec_match r ;; if e then Err else Ok (T KFlowRemoved (hv ++ vs) [m])
     else if N.eqb ty 12 then
       hv <- dec_ofheader d ;; rs <- at_ d 8 ;; r <- from d 16 ;; p <- dec_phyport r ;; Ok (T KPortStatus (hv ++ [VN rs]) [p])
     else if N.eqb ty 13 then
       hv <- dec_ofheader d ;; b <- uat 4 d 8 ;; ip <- uat 4 d 12 ;; al <- uat 2 d 16 ;;
       '(acts, e) <- dec_actions (S (length d)) d 24 (24 + al) ;; if e then Err else
       let n := 24 + sumN (map glen acts) in
       data <- from d n ;; Ok (T KPacketOut (hv ++ [VN b; VN ip; VN al]) (acts ++ [T KRaw [VB data] []]))
     else if N.eqb ty 14 then
       hv <- ofheader_lenient d ;;
       vs <- read_vals d [(8, 8); (16, 8); (24, 1); (25, 1); (26, 2); (28, 2); (30, 2); (32, 4); (36, 4); (40, 4); (44, 2)] ;;
       r <- from d 48 ;; '(m, _) <- dec_match r ;;
       '(is, _) <- dec_instrs (S (length d)) d (48 + glen m) (hdr_len hv) ;;
       Ok (T KFlowMod (hv ++ vs) (m :: is))
     else if N.eqb ty 15 then
       hv <- ofheader_lenient d ;; vs <- read_vals d [(8, 2); (10, 1); (11, 1); (12, 4)] ;;
       bs <- dec_buckets (S (length d)) d 16 (hdr_len hv) ;; Ok (T KGroupMod (hv ++ vs) bs)
     else if N.eqb ty 16 then
       hv <- dec_ofheader d ;; p <- uat 4 d 8 ;; _ <- sl d 12 16 ;; hw <- from d 16 ;; _ <- sl d 22 24 ;;
       vs <- read_vals d [(24, 4); (28, 4); (32, 4)] ;; _ <- from d 36 ;;
       Ok (T KPortMod (hv ++ [VN p; VB (fit 6 hw)] ++ vs) [])
     else if N.eqb ty 18 then
       hv <- dec_ofheader d ;; mt <- uat 2 d 8 ;; fl <- uat 2 d 10 ;;
       body <- (if (N.eqb mt 0 || N.eqb mt 3)%bool then Ok []
                else if (N.eqb mt 1 || N.eqb mt 2)%bool then
                  r <- from d 16 ;; '(b, e) <- dec_flowstats_req (if N.eqb mt 1 then KFlowStatsReq else KAggStatsReq) (N.eqb mt 1) r ;;
                  if e then Err else Ok [b]
                else if N.eqb mt 4 then r <- from d 16 ;; p <- uat 2 r 0 ;; _ <- from r 2 ;; Ok [T KPortStatsReq [VN p] []]
                else if N.eqb mt 5 then r <- from d 16 ;; p <- uat 2 r 0 ;; _ <- from r 2 ;; q <- uat 4 r 4 ;; Ok [T KQueueStatsReq [VN p; VN q] []]
                else Err) ;;
       Ok (T KMultipartReq (hv ++ [VN mt; VN fl]) body)
     else if N.eqb ty 19 then
       hv <- ofheader_lenient d ;; mt <- uat 2 d 8 ;; fl <- uat 2 d 10 ;;
       '(rs, e) <- dec_mprecords (S (length d)) d mt (hdr_len hv) 16 ;;
       if e then Err else Ok (T KMultipartReply (hv ++ [VN mt; VN fl]) rs)
     else Err)%res.
End WithParse.

(* Parse: the entry point recovers from panics and reports them as errors; a bundle-add
   nests Parse, with decreasing fuel *)
Fixpoint parse (fuel : nat) (d : list byte) : res tree :=
  match fuel with
  | O => Fuel
  | S f => recover (parse_body (parse f) d)
  end.

Definition parse_top (d : list byte) : res tree := parse (S (length d)) d.
