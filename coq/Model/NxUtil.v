(* Model of openflow13/nx_util.go: bit-range helpers (NXRange, ofs/nbits words).
   Go ints are modelled as Z; every conversion to a fixed-width unsigned type is an
   explicit [mod 2^k]; shifts by a count >= the width give 0 as in Go.
   Definitions only - no proofs in Model/. *)
From Coq Require Import ZArith List.
Import ListNotations.
Open Scope Z_scope.

Definition u8  (z : Z) : Z := z mod 256.
Definition u16 (z : Z) : Z := z mod 65536.
Definition u32 (z : Z) : Z := z mod 4294967296.

(* x, cnt already reduced to uint32 *)
Definition shr32 (x cnt : Z) : Z := if cnt <? 32 then Z.shiftr x cnt else 0.
Definition shl32 (x cnt : Z) : Z := if cnt <? 32 then u32 (Z.shiftl x cnt) else 0.
Definition shl16 (x cnt : Z) : Z := if cnt <? 16 then u16 (Z.shiftl x cnt) else 0.
Definition shr16 (x cnt : Z) : Z := if cnt <? 16 then Z.shiftr x cnt else 0.

Record nxrange := { rstart : Z ; rend : Z }.

Definition NewNXRange (s e : Z) : nxrange := {| rstart := s ; rend := e |}.
Definition NewNXRangeByOfsNBits (ofs nbits : Z) : nxrange :=
  {| rstart := ofs ; rend := ofs + nbits - 1 |}.

(* func (n *NXRange) ToUint32Mask() uint32 *)
Definition ToUint32Mask (r : nxrange) : Z :=
  let m1 := shr32 4294967295 (u32 (32 - (rend r - rstart r + 1))) in
  shl32 m1 (u32 (rstart r)).

(* func encodeOfsNbitsStartEnd(start uint16, end uint16) uint16 *)
Definition encodeOfsNbitsStartEnd (s e : Z) : Z := u16 (shl16 s 6 + u16 (e - s)).
(* func encodeOfsNbits(ofs uint16, nBits uint16) uint16 *)
Definition encodeOfsNbits (ofs nbits : Z) : Z := Z.lor (shl16 ofs 6) (u16 (nbits - 1)).
Definition decodeOfs (w : Z) : Z := shr16 w 6.
Definition decodeNbits (w : Z) : Z := u16 (Z.land w 63 + 1).

Definition ToOfsBits (r : nxrange) : Z := encodeOfsNbitsStartEnd (u16 (rstart r)) (u16 (rend r)).
Definition GetOfs (r : nxrange) : Z := u16 (rstart r).
Definition GetNbits (r : nxrange) : Z := u16 (rend r - rstart r + 1).

(* The spec the property states: exactly the bits first..last. *)
Definition spec_mask (s e : Z) : Z := Z.shiftl (Z.ones (e - s + 1)) s.
Definition spec_ofsnbits (ofs nbits : Z) : Z := ofs * 64 + (nbits - 1).
