(* Model of util/stream.go.
   (i)  the de-framer of inbound(): a pure step function over the bytes read from the
        connection (hdr / msg counters, the 4-byte header buffer, the current pool buffer);
   (ii) a transition system for the goroutines around the two buffer pools: the reader, the
        25 parser goroutines (anonymous: a list of parser states), the consumer; channels
        with their capacities;
   (iii) the outbound side: producers, the one-slot channel, the single writer.
   Definitions only. *)
From Coq Require Import NArith Arith List Bool.
From Coq.Strings Require Import Byte.
From LOF Require Import Base.Bytes.
Import ListNotations.
Local Open Scope N_scope.

(* ------------------------------------------------------------------ (i) de-framer *)
Record dstate := { d_hdr : nat ; d_hb : list byte ; d_msg : N ; d_wedged : bool ; d_buf : list byte }.
Definition dinit : dstate := {| d_hdr := 0 ; d_hb := [] ; d_msg := 0 ; d_wedged := false ; d_buf := [] |}.

(* one byte of the loop body; Some frame = the buffer handed to the Full pool *)
Definition dstep (s : dstate) (b : byte) : dstate * option (list byte) :=
  if (d_hdr s <? 4)%nat then
    let hb := d_hb s ++ [b] in
    let hdr := S (d_hdr s) in
    if (4 <=? hdr)%nat then
      (* msg = int(uint16(hdrBuf[2:])) - 4 ; a length below 5 leaves msg <= 0: nothing more is ever consumed *)
      let len := be_value (skipn 2 hb) in
      ({| d_hdr := hdr ; d_hb := hb ; d_msg := len - 4 ; d_wedged := (len <=? 4) ; d_buf := d_buf s ++ [b] |}, None)
    else ({| d_hdr := hdr ; d_hb := hb ; d_msg := d_msg s ; d_wedged := false ; d_buf := d_buf s ++ [b] |}, None)
  else if d_wedged s then (s, None)
  else
    let buf := d_buf s ++ [b] in
    if N.eqb (d_msg s) 1 then (dinit, Some buf)
    else ({| d_hdr := d_hdr s ; d_hb := d_hb s ; d_msg := d_msg s - 1 ; d_wedged := false ; d_buf := buf |}, None).

Fixpoint feed (s : dstate) (bs : list byte) : dstate * list (list byte) :=
  match bs with
  | [] => (s, [])
  | b :: r => let '(s1, o) := dstep s b in
              let '(s2, out) := feed s1 r in
              (s2, match o with Some f => f :: out | None => out end)
  end.

(* reads deliver the stream in arbitrary chunks *)
Fixpoint feed_chunks (s : dstate) (chunks : list (list byte)) : dstate * list (list byte) :=
  match chunks with
  | [] => (s, [])
  | c :: r => let '(s1, o1) := feed s c in let '(s2, o2) := feed_chunks s1 r in (s2, o1 ++ o2)
  end.

(* a well-formed frame: at least a header, and the 16-bit length field says its size *)
Definition wellframed (f : list byte) : Prop :=
  (8 <= length f)%nat /\ N.of_nat (length f) < 65536 /\ be_value (firstn 2 (skipn 2 f)) = N.of_nat (length f).

(* ------------------------------------------------------------------ (iii) outbound *)
Section Outbound.
  Variable Msg : Type.
  Variable enc : Msg -> list byte.
  Record ostate := { o_queues : nat -> list Msg ;          (* what each producer still has to submit *)
                     o_chan : option (nat * Msg) ;          (* the one-slot Outbound channel *)
                     o_written : list (nat * Msg) ;         (* what the writer took, in order *)
                     o_wire : list byte }.                  (* bytes handed to conn.Write *)
  Inductive ostep : ostate -> ostate -> Prop :=
  | OSend p m r s : o_queues s p = m :: r -> o_chan s = None ->
      ostep s {| o_queues := fun q => if Nat.eqb q p then r else o_queues s q ;
                 o_chan := Some (p, m) ; o_written := o_written s ; o_wire := o_wire s |}
  | OWrite p m s : o_chan s = Some (p, m) ->
      ostep s {| o_queues := o_queues s ; o_chan := None ;
                 o_written := o_written s ++ [(p, m)] ; o_wire := o_wire s ++ enc m |}.
  Inductive oreach (s0 : ostate) : ostate -> Prop :=
  | OR0 : oreach s0 s0
  | ORS s s' : oreach s0 s -> ostep s s' -> oreach s0 s'.
  Definition ostart (qs : nat -> list Msg) : ostate :=
    {| o_queues := qs ; o_chan := None ; o_written := [] ; o_wire := [] |}.
  Definition from_p (p : nat) (l : list (nat * Msg)) : list Msg :=
    map snd (filter (fun x => Nat.eqb (fst x) p) l).
  Definition chan_list (c : option (nat * Msg)) : list (nat * Msg) := match c with Some x => [x] | None => [] end.
End Outbound.
