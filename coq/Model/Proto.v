(* Model of package protocol: Ethernet (+802.1Q tag), ARP, IPv4, IPv6 with hop-by-hop,
   routing and fragment headers, ICMP, UDP, TCP.  Decoders produce wire trees (encoding is
   Model/Wire.v's [wire]); every slice/index operation of the Go code is a primitive that
   panics out of bounds (exact-capacity buffers), and the length checks of the Go code are
   the explicit guards.  Sub-byte fields are packed/unpacked by the lane functions below.
   Definitions only. *)
From Coq Require Import NArith List Bool.
From Coq.Strings Require Import Byte.
From LOF Require Import Base.Bytes Base.Res Model.Wire.
Import ListNotations.
Local Open Scope N_scope.

(* ---------------------------------------------------------------- Go slice primitives *)
Definition blen (l : list byte) : N := N.of_nat (length l).
(* data[a:b] *)
Definition sl (l : list byte) (a b : N) : res (list byte) :=
  if (a <=? b) && (b <=? blen l) then Ok (firstn (N.to_nat (b - a)) (skipn (N.to_nat a) l)) else Panic.
(* data[a:] *)
Definition from (l : list byte) (a : N) : res (list byte) :=
  if a <=? blen l then Ok (skipn (N.to_nat a) l) else Panic.
(* data[i] *)
Definition at_ (l : list byte) (i : N) : res N :=
  if i <? blen l then Ok (b2n (nth (N.to_nat i) l x00)) else Panic.
(* binary.BigEndian.UintN(data[a:]) *)
Definition uat (w : N) (l : list byte) (a : N) : res N :=
  if a + w <=? blen l then Ok (be_value (firstn (N.to_nat w) (skipn (N.to_nat a) l))) else Panic.

(* ---------------------------------------------------------------- bit lanes *)
(* 802.1Q TCI: PCP(3) DEI(1) VID(12); the Go code adds the three shifted parts *)
Definition pack_tci (pcp dei vid : N) : N := (pcp * 8192 + dei * 4096 + vid) mod 65536.
Definition unpack_tci (tci : N) : N * N * N := (N.land tci 57344 / 8192, N.land tci 4096 / 4096, N.land tci 4095).
(* IPv4 version/IHL, DSCP/ECN, flags/fragment offset *)
Definition pack_vihl (v ihl : N) : N := (v * 16 + ihl) mod 256.
Definition unpack_vihl (b : N) : N * N := (b / 16, N.land b 15).
Definition pack_tos (dscp ecn : N) : N := (dscp * 4 + ecn) mod 256.
Definition unpack_tos (b : N) : N * N := (b / 4, N.land b 3).
Definition pack_frag (flags off : N) : N := (flags * 8192 + off) mod 65536.
Definition unpack_frag (w : N) : N * N := (w / 8192, N.land w 8191).
(* IPv6 first word: version(4) traffic class(8) flow label(20) *)
Definition pack_v6 (v tc fl : N) : N :=
  (N.lor (N.lor ((v * 16) mod 256) (N.land (tc / 16) 15)) 0) * 16777216 +
  (N.lor (N.land (tc * 16) 240) ((fl / 65536) mod 256)) * 65536 + fl mod 65536.
Definition unpack_v6 (w : N) : N * N * N :=
  let b0 := w / 16777216 in let b1 := (w / 65536) mod 256 in
  (b0 / 16, N.lor ((N.land b0 15) * 16) (b1 / 16), N.land w 1048575).
(* TCP data offset and flags as the library keeps them *)
Definition pack_tcp_off (hl : N) : N := N.land (hl * 16) 240.
Definition unpack_tcp_off (b : N) : N := N.land (b / 16) 15.
Definition mask_tcp_code (c : N) : N := N.land c 63.
(* IPv6 fragment header: offset(13) reserved(2) M(1) *)
Definition pack_frag6 (off : N) (more : bool) : N := N.lor ((off * 8) mod 65536) (if more then 1 else 0).
Definition unpack_frag6 (w : N) : N * bool := (w / 8, N.odd w).
(* IGMPv3 query: S flag (bit 3) and QRV (3 bits) *)
Definition pack_sqrv (s : bool) (qrv : N) : N := N.lor (if s then 8 else 0) (N.land qrv 7).
Definition unpack_sqrv (b : N) : bool * N := (N.testbit b 3, N.land b 7).

(* ---------------------------------------------------------------- decoders *)
Definition raw (bs : list byte) : tree := T KRaw [VB bs] [].

(* ICMP: len < 4 -> error *)
Definition dec_icmp (d : list byte) : res tree :=
  if blen d <? 4 then Err else
  (ty <- at_ d 0 ;; code <- at_ d 1 ;; cs <- uat 2 d 2 ;; rest <- from d 4 ;;
   Ok (T KIcmp [VN ty; VN code; VN cs; VB rest] []))%res.

(* UDP: len < 8 -> error *)
Definition dec_udp (d : list byte) : res tree :=
  if blen d <? 8 then Err else
  (sp <- uat 2 d 0 ;; dp <- uat 2 d 2 ;; ln <- uat 2 d 4 ;; cs <- uat 2 d 6 ;; rest <- from d 8 ;;
   Ok (T KUdp [VN sp; VN dp; VN ln; VN cs; VB rest] []))%res.

(* TCP: len < 20 -> error; reserved bits are dropped by the decoder *)
Definition dec_tcp (d : list byte) : res tree :=
  if blen d <? 20 then Err else
  (sp <- uat 2 d 0 ;; dp <- uat 2 d 2 ;; sq <- uat 4 d 4 ;; ak <- uat 4 d 8 ;;
   b12 <- at_ d 12 ;; b13 <- at_ d 13 ;; win <- uat 2 d 14 ;; cs <- uat 2 d 16 ;; urg <- uat 2 d 18 ;;
   rest <- from d 20 ;;
   Ok (T KTcp [VN sp; VN dp; VN sq; VN ak; VN (pack_tcp_off (unpack_tcp_off b12)); VN (mask_tcp_code b13);
               VN win; VN cs; VN urg; VB rest] []))%res.

(* ARP: len < 8 -> error; the four addresses must fit; they are kept at 6/4 bytes *)
Definition dec_arp (d : list byte) : res tree :=
  if blen d <? 8 then Err else
  (ht <- uat 2 d 0 ;; pt <- uat 2 d 2 ;; hl <- at_ d 4 ;; pl <- at_ d 5 ;; op <- uat 2 d 6 ;;
   if blen d - 8 <? hl * 2 + pl * 2 then Err else
   a <- sl d 8 (8 + hl) ;; b <- sl d (8 + hl) (8 + hl + pl) ;;
   c <- sl d (8 + hl + pl) (8 + hl + pl + hl) ;; e <- sl d (8 + hl + pl + hl) (8 + hl + pl + hl + pl) ;;
   Ok (T KArp [VN ht; VN pt; VN hl; VN pl; VN op; VB (fit 6 a); VB (fit 4 b); VB (fit 6 c); VB (fit 4 e)] []))%res.

(* IPv4: len < 20 -> error; header length below 5 words or beyond the data -> error (the
   option slice data[20:IHL*4]); payload by protocol: 1 ICMP, 17 UDP, else opaque *)
Definition dec_ip4 (d : list byte) : res tree :=
  if blen d <? 20 then Err else
  (b0 <- at_ d 0 ;; b1 <- at_ d 1 ;; ln <- uat 2 d 2 ;; id <- uat 2 d 4 ;; ff <- uat 2 d 6 ;;
   ttl <- at_ d 8 ;; pr <- at_ d 9 ;; cs <- uat 2 d 10 ;; src <- sl d 12 16 ;; dst <- sl d 16 20 ;;
   let ihl := N.land b0 15 in
   if (ihl <? 5) || (blen d <? ihl * 4) then Err else
   opts <- sl d 20 (ihl * 4) ;; pl <- from d (ihl * 4) ;;
   p <- (if N.eqb pr 1 then dec_icmp pl else if N.eqb pr 17 then dec_udp pl else Ok (raw pl)) ;;
   Ok (T KIp4 [VN b0; VN b1; VN ln; VN id; VN ff; VN ttl; VN pr; VN cs; VB src; VB dst; VB opts] [p]))%res.

(* IPv6 extension headers. Sizes are 8*(HEL+1) computed without wrap-around; a header that
   does not fit is an error *)
(* hop-by-hop options: type, length, data, read from the data following the header's two
   fixed bytes until the header size is reached; an option may not run past the data *)
Fixpoint check_opts (fuel : nat) (n size : N) (o : list byte) : res unit :=
  match fuel with
  | O => Fuel
  | S f =>
    if size <=? n then Ok tt else
    if blen o <? 2 then Err else
    (l <- at_ o 1 ;;
     if blen o - 2 <? l then Err else (r <- from o (l + 2) ;; check_opts f (n + l + 2) size r))%res
  end.

Definition dec_hbh (d : list byte) : res (tree * N * N) :=       (* header, next header, size *)
  if blen d <? 2 then Err else
  (nh <- at_ d 0 ;; hel <- at_ d 1 ;;
   let size := 8 * (hel + 1) in
   if blen d <? size then Err else
   area <- sl d 2 size ;; opts <- from d 2 ;;
   _ <- check_opts (S (length d)) 2 size opts ;;
   Ok (T KHbh [VN nh; VN hel; VB area] [], nh, size))%res.

Definition dec_routing (d : list byte) : res (tree * N * N) :=
  if blen d <? 4 then Err else
  (nh <- at_ d 0 ;; hel <- at_ d 1 ;;
   let size := 8 * (hel + 1) in
   if blen d <? size then Err else
   rt <- at_ d 2 ;; sg <- at_ d 3 ;; rest <- sl d 4 size ;;
   Ok (T KRouting [VN nh; VN hel; VN rt; VN sg; VB rest] [], nh, size))%res.

Definition dec_fragment (d : list byte) : res (tree * N * N) :=
  if blen d <? 8 then Err else
  (nh <- at_ d 0 ;; rs <- at_ d 1 ;; fr <- uat 2 d 2 ;; id <- uat 4 d 4 ;;
   Ok (T KFragment [VN nh; VN rs; VN fr; VN id] [], nh, 8))%res.

(* follow the next-header chain: 0 hop-by-hop, 43 routing, 44 fragment, 58 ICMP, 17 UDP,
   anything else opaque *)
Fixpoint dec_chain (fuel : nat) (nh : N) (d : list byte) : res (list tree) :=
  match fuel with
  | O => Fuel
  | S f =>
    let ext (r : res (tree * N * N)) :=
      ('(h, nh', size) <- r ;; rest <- from d size ;; l <- dec_chain f nh' rest ;; Ok (h :: l))%res in
    if N.eqb nh 0 then ext (dec_hbh d)
    else if N.eqb nh 43 then ext (dec_routing d)
    else if N.eqb nh 44 then ext (dec_fragment d)
    else if N.eqb nh 58 then (p <- dec_icmp d ;; Ok [p])%res
    else if N.eqb nh 17 then (p <- dec_udp d ;; Ok [p])%res
    else Ok [raw d]
  end.

Definition dec_ip6 (d : list byte) : res tree :=
  if blen d <? 40 then Err else
  (w0 <- uat 4 d 0 ;; ln <- uat 2 d 4 ;; nh <- at_ d 6 ;; hop <- at_ d 7 ;;
   src <- sl d 8 24 ;; dst <- sl d 24 40 ;; rest <- from d 40 ;;
   ks <- dec_chain (S (length rest)) nh rest ;;
   Ok (T KIp6 [VN w0; VN ln; VN nh; VN hop; VB src; VB dst] ks))%res.

(* Ethernet: len < 14 -> error; with an 802.1Q tag the frame needs 18 bytes; payload by the
   ethertype found after the tag: 0x0800 IPv4, 0x86dd IPv6, 0x0806 ARP, else opaque *)
Definition dec_payload (et : N) (d : list byte) : res tree :=
  if N.eqb et 2048 then dec_ip4 d else if N.eqb et 34525 then dec_ip6 d
  else if N.eqb et 2054 then dec_arp d else Ok (raw d).

Definition dec_eth (d : list byte) : res tree :=
  if blen d <? 14 then Err else
  (dst <- sl d 0 6 ;; src <- sl d 6 12 ;; et <- uat 2 d 12 ;;
   if N.eqb et 33024 then
     if blen d <? 18 then Err else
     tci <- uat 2 d 14 ;; et2 <- uat 2 d 16 ;; pl <- from d 18 ;;
     p <- dec_payload et2 pl ;;
     (* MarshalBinary writes the tag when any of VLAN id, priority, DEI is set: a tag whose TCI is 0 is not re-encoded *)
     Ok (T KEth [VB dst; VB src]
           ((if N.eqb tci 0 then [] else [T KVlan [VN et; VN tci] []]) ++ [T KU16 [VN et2] []; p]))
   else
     pl <- from d 14 ;; p <- dec_payload et pl ;;
     Ok (T KEth [VB dst; VB src] [T KU16 [VN et] []; p]))%res.

(* which decoder a payload went to: 0 opaque, 1 ICMP, 2 UDP, 3 ARP, 4 IPv4, 6 IPv6 *)
Definition payload_tag (t : tree) : N :=
  match tkind t with KIcmp => 1 | KUdp => 2 | KArp => 3 | KIp4 => 4 | KIp6 => 6 | _ => 0 end.
