(* C12: who owns the bytes of a decoded message.
   The Go heap is a family of byte buffers; a variable-size field of a decoded message is a
   slice header: either of a buffer the decoder allocated for it (Own: nobody else can reach
   it) or of the input buffer (View: buffer, offset, length).  What a user observes of a
   message - its exported fields, its re-encoding - is a function of the resolved cells and
   of the scalar fields.  After the parse anybody may write the input buffer (the stream
   resets it and hands it back to the reader).  Definitions only. *)
From Coq Require Import NArith Arith List Bool.
From Coq.Strings Require Import Byte.
From LOF Require Import Base.Bytes.
Import ListNotations.

Definition heap := nat -> list byte.

Inductive cell := Own (bs : list byte) | View (b off len : nat).

Definition resolve (h : heap) (c : cell) : list byte :=
  match c with Own bs => bs | View b o l => firstn l (skipn o (h b)) end.

Record gomsg := { scalars : list N ; cells : list cell }.

Definition observe (h : heap) (m : gomsg) : list N * list (list byte) :=
  (scalars m, map (resolve h) (cells m)).

Definition is_own (c : cell) : bool := match c with Own _ => true | View _ _ _ => false end.
Definition owns (m : gomsg) : bool := forallb is_own (cells m).

(* later writes by anybody else: they can reach buffers, never Own cells *)
Inductive hop := HWrite (b : nat) (bs : list byte).
Definition hstep (h : heap) (op : hop) : heap :=
  match op with HWrite b bs => fun x => if Nat.eqb x b then bs else h x end.
Definition hrun (ops : list hop) (h : heap) : heap := fold_left hstep ops h.

(* the overwrite the correspondence check performs: every byte replaced by its complement *)
Definition compl (x : byte) : byte :=
  match Byte.of_N (255 - Byte.to_N x) with Some y => y | None => x end.
Definition scribble (b : nat) (h : heap) : heap := hstep h (HWrite b (map compl (h b))).

(* a decoder, abstractly: the variable-size fields it extracts from the frame in buffer
   [buf] (copy site, offset, length) and whether each site copies or keeps a sub-slice *)
Section Policy.
  Variable site : Type.
  Variable copies : site -> bool.

  Definition extract := list (site * nat * nat).

  Definition decode_cells (buf : nat) (h : heap) (x : extract) : list cell :=
    map (fun e => match e with (s, o, l) =>
           if copies s then Own (firstn l (skipn o (h buf))) else View buf o l end) x.

  Definition decoded (buf : nat) (h : heap) (sc : list N) (x : extract) : gomsg :=
    {| scalars := sc ; cells := decode_cells buf h x |}.

  (* the field is a live view: a non-empty range inside the frame *)
  Definition live (buf : nat) (h : heap) (e : site * nat * nat) : bool :=
    match e with (s, o, l) => negb (copies s) && (0 <? l)%nat && (o + l <=? length (h buf))%nat end.
End Policy.
