(* Model of package ofbase: Encoder (encoder.go), Decoder (decoder.go), Header.Decode
   (globals.go). Offsets are Go ints -> Z; the buffer is a list of bytes with exact
   capacity (a reslice beyond the length panics). Definitions only. *)
From Coq Require Import ZArith NArith List Bool.
From Coq.Strings Require Import Byte.
From LOF Require Import Base.Bytes Base.Res.
Import ListNotations.
Open Scope Z_scope.

(* ---------------------------------------------------------------- Encoder *)
Inductive wr :=
| W8 (x : N) | W16 (x : N) | W32 (x : N) | W64 (x : N) | W128 (hi lo : N)
| WBytes (bs : list byte) | WAlign.

Definition pad8 (len : nat) : nat := ((len + 7) / 8 * 8 - len)%nat.

Definition enc_step (buf : list byte) (w : wr) : list byte :=
  match w with
  | W8 x => buf ++ be8 x
  | W16 x => buf ++ be16 x
  | W32 x => buf ++ be32 x
  | W64 x => buf ++ be64 x
  | W128 hi lo => buf ++ be64 hi ++ be64 lo
  | WBytes bs => buf ++ bs
  | WAlign => buf ++ zeros (pad8 (length buf))
  end.

Definition enc_run (ws : list wr) (buf : list byte) : list byte := fold_left enc_step ws buf.

(* ---------------------------------------------------------------- Decoder *)
Record decoder := { dbuf : list byte ; doff : Z ; dbase : Z }.

Definition NewDecoder (data : list byte) : decoder := {| dbuf := data ; doff := 0 ; dbase := 0 |}.

Definition blen (d : decoder) : Z := Z.of_nat (length (dbuf d)).

(* d.buffer[a:b] *)
Definition slice (l : list byte) (a b : Z) : res (list byte) :=
  if (0 <=? a) && (a <=? b) && (b <=? Z.of_nat (length l))
  then Ok (firstn (Z.to_nat (b - a)) (skipn (Z.to_nat a) l)) else Panic.

Definition advance (d : decoder) (n : Z) : decoder :=
  {| dbuf := dbuf d ; doff := doff d + n ; dbase := dbase d |}.

(* Read(n) *)
Definition read_bytes (d : decoder) (n : Z) : res (list byte * decoder) :=
  (bs <- slice (dbuf d) (doff d) (doff d + n) ;; Ok (bs, advance d n))%res.

(* ReadByte / ReadUint8: d.buffer[d.offset] *)
Definition read_u8 (d : decoder) : res (N * decoder) :=
  if (0 <=? doff d) && (doff d <? blen d)
  then Ok (b2n (nth (Z.to_nat (doff d)) (dbuf d) x00), advance d 1) else Panic.

Definition read_un (w : Z) (d : decoder) : res (N * decoder) :=
  ('(bs, d') <- read_bytes d w ;; Ok (be_value bs, d'))%res.

Definition read_u128 (d : decoder) : res ((N * N) * decoder) :=
  ('(hi, d1) <- read_un 8 d ;; '(lo, d2) <- read_un 8 d1 ;; Ok ((hi, lo), d2))%res.

(* Skip(n) *)
Definition skip (d : decoder) (n : Z) : decoder := advance d n.

(* SkipAlign: Go's int division truncates toward zero *)
Definition skip_align (d : decoder) : decoder :=
  advance d (Z.quot (dbase d + doff d + 7) 8 * 8 - dbase d - doff d).

Definition dlength (d : decoder) : Z := blen d - doff d.

(* SliceDecoder(length, rewind): the child and the advanced parent *)
Definition slice_decoder (d : decoder) (len rewind : Z) : res (decoder * decoder) :=
  (bs <- slice (dbuf d) (doff d) (doff d + len - rewind) ;;
   Ok ({| dbuf := bs ; doff := 0 ; dbase := doff d + dbase d |}, advance d (len - rewind)))%res.

(* position counted from the start of the outermost message *)
Definition abs_pos (d : decoder) : Z := dbase d + doff d.

(* typed reads matching the typed writes *)
Inductive rd := R8 | R16 | R32 | R64 | R128 | RBytes (n : nat) | RAlign.
Inductive val := V8 (x : N) | V16 (x : N) | V32 (x : N) | V64 (x : N) | V128 (hi lo : N)
               | VBytes (bs : list byte) | VAlign.

Definition rd_width (r : rd) : Z :=
  match r with R8 => 1 | R16 => 2 | R32 => 4 | R64 => 8 | R128 => 16 | RBytes n => Z.of_nat n | RAlign => 0 end.

Definition read_one (r : rd) (d : decoder) : res (val * decoder) :=
  (match r with
   | R8 => '(x, d') <- read_u8 d ;; Ok (V8 x, d')
   | R16 => '(x, d') <- read_un 2 d ;; Ok (V16 x, d')
   | R32 => '(x, d') <- read_un 4 d ;; Ok (V32 x, d')
   | R64 => '(x, d') <- read_un 8 d ;; Ok (V64 x, d')
   | R128 => '(p, d') <- read_u128 d ;; Ok (V128 (fst p) (snd p), d')
   | RBytes n => '(bs, d') <- read_bytes d (Z.of_nat n) ;; Ok (VBytes bs, d')
   | RAlign => Ok (VAlign, skip_align d)
   end)%res.

Fixpoint read_all (rs : list rd) (d : decoder) : res (list val * decoder) :=
  match rs with
  | [] => Ok ([], d)
  | r :: rs' => ('(v, d1) <- read_one r d ;; '(vs, d2) <- read_all rs' d1 ;; Ok (v :: vs, d2))%res
  end.

Definition rd_of (w : wr) : rd :=
  match w with
  | W8 _ => R8 | W16 _ => R16 | W32 _ => R32 | W64 _ => R64 | W128 _ _ => R128
  | WBytes bs => RBytes (length bs) | WAlign => RAlign
  end.
Definition val_of (w : wr) : val :=
  match w with
  | W8 x => V8 x | W16 x => V16 x | W32 x => V32 x | W64 x => V64 x | W128 h l => V128 h l
  | WBytes bs => VBytes bs | WAlign => VAlign
  end.
(* values fit their declared widths (the Go parameter types guarantee it) *)
Definition wr_wf (w : wr) : bool :=
  match w with
  | W8 x => (x <? 256)%N | W16 x => (x <? 65536)%N | W32 x => (x <? 4294967296)%N
  | W64 x => (x <? 18446744073709551616)%N
  | W128 h l => (h <? 18446744073709551616)%N && (l <? 18446744073709551616)%N
  | WBytes _ => true | WAlign => true
  end.

(* ---------------------------------------------------------------- Header.Decode *)
Record header := { h_version : N ; h_type : N ; h_length : N ; h_xid : N }.

Definition header_decode_body (d : decoder) : res (header * decoder) :=
  ('(v, d1) <- read_u8 d ;; '(t, d2) <- read_u8 d1 ;;
   '(l, d3) <- read_un 2 d2 ;; '(x, d4) <- read_un 4 d3 ;;
   Ok ({| h_version := v ; h_type := t ; h_length := l ; h_xid := x |}, d4))%res.

(* length check first; a panic in the body is recovered into an error *)
Definition header_decode (d : decoder) : res (header * decoder) :=
  if dlength d <? 8 then Err else recover (header_decode_body d).
