(* Vocabulary of the source facts that harness/srcfacts regenerates from /repo on every run
   (LOFGen.SrcFacts). *)
From Coq Require Import List String.
Inductive xid_draw_kind := AtomicAdd32 | ReadThenWrite | UnknownDraw.
Inductive write_kind := WPlain | WAtomic | WIndexStore | WIncDec | WAddrTaken | WDelete.
Inductive lookup_kind := FreshRecord | SharedEntry | UnknownLookup.

Definition write_is_atomic (w : write_kind) : bool := match w with WAtomic => true | _ => false end.
(* a package-level variable is safe to share when nothing writes it after initialisation, or
   every write goes through sync/atomic *)
Definition var_ok (v : string * list (write_kind * string)) : bool :=
  forallb (fun w => write_is_atomic (fst w)) (snd v).
Definition inventory_ok (inv : list (string * list (write_kind * string))) : bool := forallb var_ok inv.
