(* Model of the match-field registry (openflow13/nx_util.go: oxxFieldHeaderMap,
   FindFieldHeaderByName) and of the 32-bit field-header packing (match.go:
   MarshalHeader / UnmarshalHeader). Definitions only.
   The table below is the model of what the library registers; the correspondence check
   compares it entry for entry with the map dumped from the running library. *)
From Coq Require Import NArith List String Ascii Bool.
Import ListNotations.
Local Open Scope N_scope.
Local Open Scope string_scope.

Record fieldhdr := { fh_class : N ; fh_field : N ; fh_hasmask : bool ; fh_length : N }.

(* name, class, field, payload width in bytes *)
Definition registry : list (string * (N * N * N)) := [
  ("NXM_OF_IN_PORT", (0, 0, 2));
  ("NXM_OF_ETH_DST", (0, 1, 6));
  ("NXM_OF_ETH_SRC", (0, 2, 6));
  ("NXM_OF_ETH_TYPE", (0, 3, 2));
  ("NXM_OF_VLAN_TCI", (0, 4, 2));
  ("NXM_OF_IP_TOS", (0, 5, 1));
  ("NXM_OF_IP_PROTO", (0, 6, 1));
  ("NXM_OF_IP_SRC", (0, 7, 4));
  ("NXM_OF_IP_DST", (0, 8, 4));
  ("NXM_OF_TCP_SRC", (0, 9, 2));
  ("NXM_OF_TCP_DST", (0, 10, 2));
  ("NXM_OF_UDP_SRC", (0, 11, 2));
  ("NXM_OF_UDP_DST", (0, 12, 2));
  ("NXM_OF_ICMP_TYPE", (0, 13, 1));
  ("NXM_OF_ICMP_CODE", (0, 14, 1));
  ("NXM_OF_ARP_OP", (0, 15, 2));
  ("NXM_OF_ARP_SPA", (0, 16, 4));
  ("NXM_OF_ARP_TPA", (0, 17, 4));
  ("NXM_NX_REG0", (1, 0, 4));
  ("NXM_NX_REG1", (1, 1, 4));
  ("NXM_NX_REG2", (1, 2, 4));
  ("NXM_NX_REG3", (1, 3, 4));
  ("NXM_NX_REG4", (1, 4, 4));
  ("NXM_NX_REG5", (1, 5, 4));
  ("NXM_NX_REG6", (1, 6, 4));
  ("NXM_NX_REG7", (1, 7, 4));
  ("NXM_NX_REG8", (1, 8, 4));
  ("NXM_NX_REG9", (1, 9, 4));
  ("NXM_NX_REG10", (1, 10, 4));
  ("NXM_NX_REG11", (1, 11, 4));
  ("NXM_NX_REG12", (1, 12, 4));
  ("NXM_NX_REG13", (1, 13, 4));
  ("NXM_NX_REG14", (1, 14, 4));
  ("NXM_NX_REG15", (1, 15, 4));
  ("NXM_NX_TUN_ID", (1, 16, 8));
  ("NXM_NX_ARP_SHA", (1, 17, 6));
  ("NXM_NX_ARP_THA", (1, 18, 6));
  ("NXM_NX_IPV6_SRC", (1, 19, 16));
  ("NXM_NX_IPV6_DST", (1, 20, 16));
  ("NXM_NX_ICMPV6_TYPE", (1, 21, 1));
  ("NXM_NX_ICMPV6_CODE", (1, 22, 1));
  ("NXM_NX_ND_TARGET", (1, 23, 16));
  ("NXM_NX_ND_SLL", (1, 24, 6));
  ("NXM_NX_ND_TLL", (1, 25, 6));
  ("NXM_NX_IP_FRAG", (1, 26, 1));
  ("NXM_NX_IPV6_LABEL", (1, 27, 4));
  ("NXM_NX_IP_ECN", (1, 28, 1));
  ("NXM_NX_IP_TTL", (1, 29, 1));
  ("NXM_NX_MPLS_TTL", (1, 30, 1));
  ("NXM_NX_TUN_IPV4_SRC", (1, 31, 4));
  ("NXM_NX_TUN_IPV4_DST", (1, 32, 4));
  ("NXM_NX_PKT_MARK", (1, 33, 4));
  ("NXM_NX_TCP_FLAGS", (1, 34, 2));
  ("NXM_NX_CONJ_ID", (1, 37, 4));
  ("NXM_NX_TUN_GBP_ID", (1, 38, 2));
  ("NXM_NX_TUN_GBP_FLAGS", (1, 39, 1));
  ("NXM_NX_TUN_FLAGS", (1, 104, 2));
  ("NXM_NX_CT_STATE", (1, 105, 4));
  ("NXM_NX_CT_ZONE", (1, 106, 2));
  ("NXM_NX_CT_MARK", (1, 107, 4));
  ("NXM_NX_CT_LABEL", (1, 108, 16));
  ("NXM_NX_TUN_IPV6_SRC", (1, 109, 16));
  ("NXM_NX_TUN_IPV6_DST", (1, 110, 16));
  ("NXM_NX_CT_NW_PROTO", (1, 119, 1));
  ("NXM_NX_CT_NW_SRC", (1, 120, 4));
  ("NXM_NX_CT_NW_DST", (1, 121, 4));
  ("NXM_NX_CT_IPV6_SRC", (1, 122, 16));
  ("NXM_NX_CT_IPV6_DST", (1, 123, 16));
  ("NXM_NX_CT_TP_SRC", (1, 124, 2));
  ("NXM_NX_CT_TP_DST", (1, 125, 2));
  ("NXM_NX_TUN_METADATA0", (1, 40, 124));
  ("NXM_NX_TUN_METADATA1", (1, 41, 124));
  ("NXM_NX_TUN_METADATA2", (1, 42, 124));
  ("NXM_NX_TUN_METADATA3", (1, 43, 124));
  ("NXM_NX_TUN_METADATA4", (1, 44, 124));
  ("NXM_NX_TUN_METADATA5", (1, 45, 124));
  ("NXM_NX_TUN_METADATA6", (1, 46, 124));
  ("NXM_NX_TUN_METADATA7", (1, 47, 124));
  ("NXM_NX_XXREG0", (1, 111, 16));
  ("NXM_NX_XXREG1", (1, 112, 16));
  ("NXM_NX_XXREG2", (1, 113, 16));
  ("NXM_NX_XXREG3", (1, 114, 16));
  ("OXM_OF_IN_PORT", (32768, 0, 4));
  ("OXM_OF_IN_PHY_PORT", (32768, 1, 4));
  ("OXM_OF_METADATA", (32768, 2, 8));
  ("OXM_OF_ETH_DST", (32768, 3, 6));
  ("OXM_OF_ETH_SRC", (32768, 4, 6));
  ("OXM_OF_ETH_TYPE", (32768, 5, 2));
  ("OXM_OF_VLAN_VID", (32768, 6, 2));
  ("OXM_OF_VLAN_PCP", (32768, 7, 1));
  ("OXM_OF_IP_DSCP", (32768, 8, 1));
  ("OXM_OF_IP_ECN", (32768, 9, 1));
  ("OXM_OF_IP_PROTO", (32768, 10, 1));
  ("OXM_OF_IPV4_SRC", (32768, 11, 4));
  ("OXM_OF_IPV4_DST", (32768, 12, 4));
  ("OXM_OF_TCP_SRC", (32768, 13, 2));
  ("OXM_OF_TCP_DST", (32768, 14, 2));
  ("OXM_OF_UDP_SRC", (32768, 15, 2));
  ("OXM_OF_UDP_DST", (32768, 16, 2));
  ("OXM_OF_SCTP_SRC", (32768, 17, 2));
  ("OXM_OF_SCTP_DST", (32768, 18, 2));
  ("OXM_OF_ICMPV4_TYPE", (32768, 19, 1));
  ("OXM_OF_ICMPV4_CODE", (32768, 20, 1));
  ("OXM_OF_ARP_OP", (32768, 21, 2));
  ("OXM_OF_ARP_SPA", (32768, 22, 4));
  ("OXM_OF_ARP_TPA", (32768, 23, 4));
  ("OXM_OF_ARP_SHA", (32768, 24, 6));
  ("OXM_OF_ARP_THA", (32768, 25, 6));
  ("OXM_OF_IPV6_SRC", (32768, 26, 16));
  ("OXM_OF_IPV6_DST", (32768, 27, 16));
  ("OXM_OF_IPV6_FLABEL", (32768, 28, 4));
  ("OXM_OF_ICMPV6_TYPE", (32768, 29, 1));
  ("OXM_OF_ICMPV6_CODE", (32768, 30, 1));
  ("OXM_OF_IPV6_ND_TARGET", (32768, 31, 16));
  ("OXM_OF_IPV6_ND_SLL", (32768, 32, 6));
  ("OXM_OF_IPV6_ND_TLL", (32768, 33, 6));
  ("OXM_OF_MPLS_LABEL", (32768, 34, 4));
  ("OXM_OF_MPLS_TC", (32768, 35, 1));
  ("OXM_OF_MPLS_BOS", (32768, 36, 1));
  ("OXM_OF_PBB_ISID", (32768, 37, 3));
  ("OXM_OF_TUNNEL_ID", (32768, 38, 8));
  ("OXM_OF_IPV6_EXTHDR", (32768, 39, 2))].

Definition upper_ascii (c : ascii) : ascii :=
  let n := N_of_ascii c in if (N.leb 97 n && N.leb n 122)%bool then ascii_of_N (n - 32) else c.
Fixpoint upper (s : string) : string :=
  match s with EmptyString => EmptyString | String c r => String (upper_ascii c) (upper r) end.

Fixpoint lookup (k : string) (l : list (string * (N * N * N))) : option (N * N * N) :=
  match l with
  | [] => None
  | (n, v) :: r => if String.eqb n k then Some v else lookup k r
  end.

(* FindFieldHeaderByName(fieldName, hasMask): a fresh record; the width is doubled in
   uint8 arithmetic when a mask is requested *)
Definition FindFieldHeaderByName (name : string) (hasMask : bool) : option fieldhdr :=
  match lookup (upper name) registry with
  | None => None
  | Some (c, f, w) =>
    Some {| fh_class := c ; fh_field := f ; fh_hasmask := hasMask ;
            fh_length := if hasMask then (w * 2) mod 256 else w |}
  end.

(* MarshalHeader: uint32(Class)<<16 | uint32(Field)<<9 | mask<<8 | uint32(Length) *)
Definition MarshalHeader (h : fieldhdr) : N :=
  N.lor (N.lor (N.lor ((N.shiftl (fh_class h) 16) mod 4294967296) ((N.shiftl (fh_field h) 9) mod 4294967296))
               (if fh_hasmask h then 256 else 0))
        (fh_length h).

(* UnmarshalHeader on the four big-endian bytes of a word *)
Definition UnmarshalHeader (w : N) : fieldhdr :=
  let b2 := (w / 256) mod 256 in
  {| fh_class := w / 65536 ; fh_field := b2 / 2 ; fh_hasmask := N.odd b2 ; fh_length := w mod 256 |}.

Definition fh_wf (h : fieldhdr) : bool :=
  (N.ltb (fh_class h) 65536 && N.ltb (fh_field h) 128 && N.ltb (fh_length h) 256)%bool.
