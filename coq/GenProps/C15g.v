(* C15(c) - read from the source on every run: lookups hand out fresh records and nothing
   writes the registry after initialisation. *)
From Coq Require Import List String Bool.
From LOF Require Import Model.SrcTypes.
From LOFGen Require Import SrcFacts.

Theorem C15_lookup_returns_fresh_record : lookup_result = FreshRecord.
Proof. reflexivity. Qed.
Theorem C15_registry_never_written : inventory_ok inventory = true.
Proof. vm_compute. reflexivity. Qed.
