(* C14 - the part of the property that is read from the source on every run.
   Compiled by ./check C14 against the freshly generated LOFGen.SrcFacts. *)
From Coq Require Import NArith List String Bool.
From LOF Require Import Model.SrcTypes Model.Xid Proofs.XidP.
From LOFGen Require Import SrcFacts.
Open Scope N_scope.

(* the id is drawn with one atomic add: this is the line that stops compiling when the
   source starts to use a plain read-modify-write (or something the extractor cannot classify) *)
Theorem C14_draw_is_atomic : xid_draw = AtomicAdd32.
Proof. reflexivity. Qed.

(* no package-level variable is written after initialisation except through sync/atomic *)
Theorem C14_no_shared_writes : inventory_ok inventory = true.
Proof. vm_compute. reflexivity. Qed.

(* hence, for every schedule of every number of goroutines, the ids are pairwise distinct
   until the 32-bit counter has gone round once *)
Theorem C14_ids_distinct : xid_draw = AtomicAdd32 ->
  forall sched c, c < M32 -> N.of_nat (List.length sched) <= M32 -> NoDup (ids (run_atomic c sched)).
Proof. intros _. exact atomic_ids_distinct. Qed.
Print Assumptions C14_ids_distinct.
