(* C12 - read from the source on every run: no decoder reachable from the parser entry point
   stores, appends, returns or wraps a sub-slice of its input. *)
From Coq Require Import List String.
From LOFGen Require Import SrcFacts.

Theorem C12_no_decoder_keeps_a_view : view_sites = nil.
Proof. reflexivity. Qed.

(* the stream hands a pooled buffer back only after the parser has returned *)
Theorem C12_buffer_recycled_after_parse : recycle_after_parse = true.
Proof. reflexivity. Qed.
