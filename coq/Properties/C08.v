(* C08 - packet-header decoders are total on arbitrary packet bytes.
   Statements only; every proof is [exact lemma].  [safe r] = r is neither a panic nor an
   exhausted fuel, i.e. the decoder returned a value or an error. *)
From Coq Require Import NArith List Bool.
From Coq.Strings Require Import Byte.
From LOF Require Import Base.Bytes Base.Res Model.Wire Model.Proto Proofs.ProtoP.
Open Scope N_scope.

(* Ethernet with 802.1Q tag and everything reachable below it (ARP, IPv4 -> ICMP/UDP, IPv6 ->
   hop-by-hop / routing / fragment chain -> ICMP/UDP), for every byte string *)
Theorem C08_ethernet_total : forall d, safe (dec_eth d).
Proof. exact dec_eth_safe. Qed.
Print Assumptions C08_ethernet_total.

Theorem C08_arp_total : forall d, safe (dec_arp d).        Proof. exact dec_arp_safe. Qed.
Theorem C08_ipv4_total : forall d, safe (dec_ip4 d).       Proof. exact dec_ip4_safe. Qed.
Theorem C08_ipv6_total : forall d, safe (dec_ip6 d).       Proof. exact dec_ip6_safe. Qed.
Theorem C08_icmp_total : forall d, safe (dec_icmp d).      Proof. exact dec_icmp_safe. Qed.
Theorem C08_udp_total : forall d, safe (dec_udp d).        Proof. exact dec_udp_safe. Qed.
Theorem C08_tcp_total : forall d, safe (dec_tcp d).        Proof. exact dec_tcp_safe. Qed.
Theorem C08_hbh_total : forall d, safe (dec_hbh d).        Proof. exact dec_hbh_safe. Qed.
Theorem C08_routing_total : forall d, safe (dec_routing d). Proof. exact dec_routing_safe. Qed.
Theorem C08_fragment_total : forall d, safe (dec_fragment d). Proof. exact dec_fragment_safe. Qed.
Print Assumptions C08_ipv6_total.

(* the loops: the extension-header chain and the option walk terminate within the fuel
   S |data| whatever the length bytes say (header extension length 255, option length 254,
   ... are ordinary cases of these statements) *)
Theorem C08_chain_terminates : forall fuel nh d, (length d < fuel)%nat -> safe (dec_chain fuel nh d).
Proof. exact dec_chain_safe. Qed.
Theorem C08_options_terminate : forall fuel n size o, (length o < fuel)%nat -> safe (check_opts fuel n size o).
Proof. exact check_opts_safe. Qed.
Print Assumptions C08_chain_terminates.
