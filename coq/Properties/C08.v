(* C08 - packet-header decoders are total on arbitrary packet bytes.
   Statements only; every proof is [exact lemma].  [safe r] = r is neither a panic nor an
   exhausted fuel, i.e. the decoder returned a value or an error. *)
From Coq Require Import NArith List Bool.
From Coq.Strings Require Import Byte.
From LOF Require Import Base.Bytes Base.Res Model.Wire Model.Proto Model.Proto2 Proofs.ProtoP Proofs.Proto2P.
Open Scope N_scope.

(* Ethernet with 802.1Q tag and everything reachable below it (ARP, IPv4 -> ICMP/UDP, IPv6 ->
   hop-by-hop / routing / fragment chain -> ICMP/UDP), for every byte string *)
Theorem C08_ethernet_total : forall d, safe (dec_eth d).
Proof. exact dec_eth_safe. Qed.
Print Assumptions C08_ethernet_total.

Theorem C08_arp_total : forall d, safe (dec_arp d).        Proof. exact dec_arp_safe. Qed.
Theorem C08_ipv4_total : forall d, safe (dec_ip4 d).       Proof. exact dec_ip4_safe. Qed.
Theorem C08_ipv6_total : forall d, safe (dec_ip6 d).       Proof. exact dec_ip6_safe. Qed.
Theorem C08_icmp_total : forall d, safe (dec_icmp d).      Proof. exact dec_icmp_safe. Qed.
Theorem C08_udp_total : forall d, safe (dec_udp d).        Proof. exact dec_udp_safe. Qed.
Theorem C08_tcp_total : forall d, safe (dec_tcp d).        Proof. exact dec_tcp_safe. Qed.
Theorem C08_hbh_total : forall d, safe (dec_hbh d).        Proof. exact dec_hbh_safe. Qed.
Theorem C08_routing_total : forall d, safe (dec_routing d). Proof. exact dec_routing_safe. Qed.
Theorem C08_fragment_total : forall d, safe (dec_fragment d). Proof. exact dec_fragment_safe. Qed.
Print Assumptions C08_ipv6_total.

(* the loops: the extension-header chain and the option walk terminate within the fuel
   S |data| whatever the length bytes say (header extension length 255, option length 254,
   ... are ordinary cases of these statements) *)
Theorem C08_chain_terminates : forall fuel nh d, (length d < fuel)%nat -> safe (dec_chain fuel nh d).
Proof. exact dec_chain_safe. Qed.
Theorem C08_options_terminate : forall fuel n size o, (length o < fuel)%nat -> safe (check_opts fuel n size o).
Proof. exact check_opts_safe. Qed.
Print Assumptions C08_chain_terminates.

(* ---- the kinds that are not reached from the Ethernet decoder (Model/Proto2.v) ---- *)
Theorem C08_igmp12_total : forall d, safe (dec_igmp12 d).            Proof. exact dec_igmp12_safe. Qed.
Theorem C08_igmp3_query_total : forall d, safe (dec_igmp3q d).       Proof. exact dec_igmp3q_safe. Qed.
Theorem C08_igmp3_record_total : forall d, safe (dec_gr d).          Proof. exact dec_gr_safe. Qed.
Theorem C08_igmp3_report_total : forall d, safe (dec_report d).      Proof. exact dec_report_safe. Qed.
Theorem C08_dhcp_total : forall d, safe (dec_dhcp d).                Proof. exact dec_dhcp_safe. Qed.
Theorem C08_vlan_total : forall d, safe (dec_vlan d).                Proof. exact dec_vlan_safe. Qed.
Theorem C08_ipv6_option_total : forall d, safe (dec_v6opt d).        Proof. exact dec_v6opt_safe. Qed.
Print Assumptions C08_igmp3_report_total.
Print Assumptions C08_dhcp_total.

(* the loops: every record of a membership report occupies at least 8 bytes of the data and the
   report decoder advances by what the record occupies, so the announced count (up to 65535)
   cannot make it iterate more often than the data has bytes; the DHCP option walk consumes at
   least one byte per option *)
Theorem C08_report_records_terminate : forall fuel k d, (length d < fuel)%nat -> safe (dec_recs fuel k d).
Proof. exact dec_recs_safe. Qed.
Theorem C08_record_occupies_its_bytes : forall d g, dec_gr d = Ok g -> 8 <= size_gr g <= blen d.
Proof. exact dec_gr_size. Qed.
Theorem C08_dhcp_options_terminate : forall fuel o, (length o < fuel)%nat -> safe (parse_opts fuel o).
Proof. exact parse_opts_safe. Qed.
Print Assumptions C08_report_records_terminate.

(* LLDP: the TLV decoders return (bytes consumed, failed, value) - a value or an error by
   construction - and never consume more than the data holds (the header decoder re-slices the
   data at the consumed count) *)
Theorem C08_lldp_total : forall b, safe (dec_lldp_r b) /\ fst (fst (dec_lldp b)) <= blen b.
Proof. exact (fun b => conj (res_of_safe (dec_lldp b)) (dec_lldp_consumed b)). Qed.
Theorem C08_lldp_tlvs_total : forall b, safe (dec_tlv_r b) /\ safe (dec_ttl_r b) /\ fst (fst (dec_tlv b)) <= blen b /\ fst (fst (dec_ttl b)) <= blen b.
Proof. exact (fun b => conj (res_of_safe (dec_tlv b)) (conj (res_of_safe (dec_ttl b)) (conj (dec_tlv_consumed b) (dec_ttl_consumed b)))). Qed.
Print Assumptions C08_lldp_total.
