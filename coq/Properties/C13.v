(* C13 - sizing and encoding are repeatable and do not disturb the value.
   Statements only; every proof is [exact lemma]. *)
From Coq Require Import NArith List Bool.
From Coq.Strings Require Import Byte.
From LOF Require Import Base.Bytes Base.Res Model.Wire Model.Build Model.Parse Proofs.WireP Proofs.BuildP Proofs.NormP Model.BuildSw Proofs.HelloBaseP
  Proofs.ParseRtAll6P Proofs.DecodedOpsP Proofs.ParseSwAll2P Proofs.ParseSwAll3P Proofs.ParseSwRtP.
Import ListNotations.
Open Scope N_scope.

(* any interleaving of size queries and encodings on a completed value: every Len() gives
   the same number and every MarshalBinary() the same bytes (the model threads the value
   through MarshalBinary's write-backs of length fields, at every nesting level) *)
Theorem C13_history_independent : forall t ops, consistent t = true ->
  run_ops t ops = map (fun o => match o with OpLen => RLen (glen t) | OpMarshal => RBytes (fst (marshal t)) end) ops.
Proof. exact ops_repeatable. Qed.
Print Assumptions C13_history_independent.

(* encoding a second time changes nothing: same bytes, same value, same reported size *)
Theorem C13_marshal_idempotent : forall t, consistent t = true ->
  glen t = N.of_nat (length (fst (marshal t))) /\ glen (snd (marshal t)) = glen t /\
  marshal (snd (marshal t)) = marshal t.
Proof. exact marshal_len. Qed.
Print Assumptions C13_marshal_idempotent.

(* the value after encoding is still consistent, so it can be embedded and sized again by
   an enclosing container (vendor header, bundle add, multipart, stream) *)
Theorem C13_still_consistent : forall t, consistent t = true -> consistent (snd (marshal t)) = true.
Proof. exact norm_consistent. Qed.
Print Assumptions C13_still_consistent.

(* everything the API builds is such a value *)
Theorem C13_applies_to_built_messages : forall m xid, wf_m m = true -> consistent (build_m xid m) = true.
Proof. exact build_m_ok. Qed.

(* ---- hello with any list of version-bitmap elements ([hello_tree xid es]: the elements and
   their bitmaps are exported fields, so a controller can build any such list): each element is
   padded to 64 bits and its length field counts header and bitmaps (fix D46) ---- *)
Theorem C13_applies_to_hello : forall xid es, consistent (hello_tree xid es) = true.
Proof. exact hello_consistent. Qed.

(* ---- values obtained by DECODING: the value the parser returns for the encoding of any
   controller-side recipe (hypothesis of C05) answers every sequence of Len() / MarshalBinary()
   calls with one size and with the bytes it was parsed from ---- *)
Theorem C13_shape_suffices : forall t ops, shaped t = true ->
  run_ops t ops = map (fun o => match o with OpLen => RLen (glen t) | OpMarshal => RBytes (fst (marshal t)) end) ops.
Proof. exact ops_repeatable_shaped. Qed.
Theorem C13_decoded_values : forall m xid ops, pmsg_ok m = true -> xid < 4294967296 ->
  let bytes := fst (marshal (build_m xid m)) in
  exists v, parse_top bytes = Ok v /\
            run_ops v ops = map (fun o => match o with OpLen => RLen (glen v) | OpMarshal => RBytes bytes end) ops.
Proof. exact decoded_ops_repeatable. Qed.
Print Assumptions C13_decoded_values.

(* and for the switch-side kinds whose parsed value is the written value (C05's switch-side
   theorem): features reply, port-status, flow-removed, packet-in with data, error, ... *)
Theorem C13_decoded_switch_values : forall s xid ops,
  sw_ok s = true -> sw_payload_ok s -> sw_payload_shaped s -> sw_plain s = true -> xid < 4294967296 ->
  let bytes := wire (sw_tree xid s) in
  exists v, parse_top bytes = Ok v /\
            run_ops v ops = map (fun o => match o with OpLen => RLen (glen v) | OpMarshal => RBytes bytes end) ops.
Proof. exact sw_decoded_ops_repeatable. Qed.
Print Assumptions C13_decoded_switch_values.
