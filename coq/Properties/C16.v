(* C16 - bit-range helpers: mask, offset and width agree for every range.
   Statements only; every proof is [exact lemma]; Print Assumptions under each. *)
From Coq Require Import ZArith Bool.
From LOF Require Import Model.NxUtil Proofs.NxUtilP.
Open Scope Z_scope.

(* exactly the bits first..last are set, for every range inside a 32-bit register
   (proved by a complete sweep of the 528 ranges x 32 bit positions, lifted by
   forallb_forall; bits >= 32 by algebra) *)
Theorem C16_mask_exact : forall s e i, 0 <= s <= e -> e <= 31 -> 0 <= i ->
  Z.testbit (ToUint32Mask (NewNXRange s e)) i = ((s <=? i) && (i <=? e)).
Proof. exact mask_exact. Qed.
Print Assumptions C16_mask_exact.

(* first/last and offset/width descriptions build the same range *)
Theorem C16_two_descriptions : forall s e, NewNXRangeByOfsNBits s (e - s + 1) = NewNXRange s e.
Proof. exact range_two_ways. Qed.
Print Assumptions C16_two_descriptions.

(* offset in the upper 10 bits, width-1 in the lower 6; both recovered exactly *)
Theorem C16_ofs_nbits_word : forall ofs n, 0 <= ofs < 1024 -> 1 <= n <= 64 ->
  encodeOfsNbits ofs n = ofs * 64 + (n - 1) /\
  decodeOfs (encodeOfsNbits ofs n) = ofs /\ decodeNbits (encodeOfsNbits ofs n) = n.
Proof. exact ofs_nbits_word. Qed.
Print Assumptions C16_ofs_nbits_word.

(* the range object's own word and accessors agree with the offset/width encoding *)
Theorem C16_range_word : forall s e, 0 <= s <= e -> s < 1024 -> e - s < 64 ->
  ToOfsBits (NewNXRange s e) = encodeOfsNbits s (e - s + 1) /\
  GetOfs (NewNXRange s e) = s /\ GetNbits (NewNXRange s e) = e - s + 1.
Proof. exact range_word. Qed.
Print Assumptions C16_range_word.
