(* C11 - outbound stream: every submitted message is written once, whole, in order.
   Statements only; every proof is [exact lemma]. *)
From Coq Require Import List.
From Coq.Strings Require Import Byte.
From LOF Require Import Base.Bytes Model.Stream Proofs.StreamP.
Import ListNotations.

(* any number of producers, any interleaving of their sends with the single writer's
   receives: the bytes on the wire are the concatenation of the encodings of the messages
   the writer took, whole and in that order; and for every producer, what was written plus
   what sits in the channel plus what it still holds is its own sequence, in order *)
Theorem C11_wire_is_whole_frames_in_order : forall (Msg : Type) (enc : Msg -> list byte) qs s,
  oreach Msg enc (ostart Msg qs) s ->
  o_wire Msg s = List.concat (map (fun x => enc (snd x)) (o_written Msg s)) /\
  forall p, from_p Msg p (o_written Msg s ++ chan_list Msg (o_chan Msg s)) ++ o_queues Msg s p = qs p.
Proof. exact oinv_reach. Qed.
Print Assumptions C11_wire_is_whole_frames_in_order.
