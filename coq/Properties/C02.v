(* C02 - nested lengths, alignment and type codes follow the OF1.3/Nicira wire grammar.
   Statements only; every proof is [exact lemma].

   The walker is Spec/Walk.v's independent decoder with the tree forgotten. *)
From Coq Require Import NArith List Bool.
From Coq.Strings Require Import Byte.
From LOF Require Import Base.Bytes Model.Wire Model.Build Spec.Walk Proofs.WireP Proofs.BuildP Proofs.NormP Proofs.WalkP.
Import ListNotations.
Open Scope N_scope.

(* THE FULL STATEMENT (not proved in full generality in this development): every message
   any well-formed API recipe builds is accepted by the walker. *)
Definition C02_full_statement : Prop :=
  forall m xid, wf_m m = true -> xid < 4294967296 -> size (build_m xid m) <= 65535 ->
  spec_walk (fst (marshal (build_m xid m))) = true.

(* What is proved, for all values of the quantified arguments:
   - the table lemma: any element whose layout consists of numbers and zero padding is read
     back field by field from its own encoding, whatever follows it;
   - hence each of the eight fixed-size standard actions (output, set-queue, group,
     dec-nw-ttl, pop-vlan, push-vlan, push-mpls, pop-mpls) declares exactly the bytes it
     occupies, carries its OpenFlow type code and its zero padding, in front of any rest;
   - and a list of them, in any order and number, is walked element by element to its
     exact end.
   Missing (covered by the correspondence check, which walks every encoding the library
   produces for random recipes of ALL kinds, and by the example below): set-field and the
   Nicira actions, instructions, buckets, matches and the message framings. *)
Theorem C02_table_lemma_partial : forall l vs rest, plain l = true -> vals_ok l vs = true ->
  sfields l (enc_fields l vs ++ rest) = Some (vs, rest).
Proof. exact sfields_enc. Qed.
Print Assumptions C02_table_lemma_partial.

Theorem C02_fixed_actions_partial : forall a fuel rest, std_arec_ok a = true ->
  sdec_action (S fuel) (wire (build_a a) ++ rest) = Some (build_a a, rest).
Proof. exact sdec_built_std_action. Qed.
Print Assumptions C02_fixed_actions_partial.

Theorem C02_action_lists_partial : forall acts, forallb std_arec_ok acts = true ->
  forall fuel, (length (flat_map wire (map build_a acts)) < fuel)%nat ->
  sdec_actions fuel (flat_map wire (map build_a acts)) = Some (map build_a acts).
Proof. exact sdec_built_std_actions. Qed.
Print Assumptions C02_action_lists_partial.

(* alignment facts that hold for every recipe: every action the API builds fills whole
   8-byte words and its stored length is its size *)
Theorem C02_actions_aligned : forall a, wf_a a = true ->
  consistent (build_a a) = true /\ size (build_a a) mod 8 = 0.
Proof. exact build_a_ok. Qed.
Print Assumptions C02_actions_aligned.
