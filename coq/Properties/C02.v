(* C02 - nested lengths, alignment and type codes follow the OF1.3/Nicira wire grammar.
   Statements only; every proof is [exact lemma].

   The walker is Spec/Walk.v's independent decoder with the tree forgotten: it succeeds only
   when every declared length equals the extent occupied, every padding byte is zero, every
   type / subtype / class code is a defined one and the walk ends exactly at the end of the
   message. *)
From Coq Require Import NArith List Bool.
From Coq.Strings Require Import Byte.
From LOF Require Import Base.Bytes Model.Wire Model.Build Spec.Walk Proofs.WireP Proofs.BuildP Proofs.NormP Proofs.WalkP
  Proofs.WalkAllP Proofs.WalkMsgP Model.BuildSw Proofs.HelloBaseP Proofs.HelloP.
Import ListNotations.
Open Scope N_scope.

Definition C02_full_statement : Prop :=
  forall m xid, wf_m m = true -> xid < 4294967296 -> size (build_m xid m) <= 65535 ->
  spec_walk (fst (marshal (build_m xid m))) = true.

(* THE THEOREM: every message any recipe builds whose arguments fit their fields ([msg_ok],
   see Properties/C03.v; port / queue statistics requests excluded - finding D10 is about
   their body layout) is accepted by the walker.  The hypothesis differs from the full
   statement's only by asking for the range and count side conditions explicitly and for
   sizes below 65000 instead of 65535. *)
Theorem C02_built_messages_walk : forall m xid, msg_ok m = true -> xid < 4294967296 ->
  spec_walk (fst (marshal (build_m xid m))) = true.
Proof. exact spec_walk_built. Qed.
Print Assumptions C02_built_messages_walk.

(* the table lemma everything rests on: any layout of numbers and zero padding is read back
   field by field from its own encoding, whatever follows it *)
Theorem C02_table_lemma : forall l vs rest, plain l = true -> vals_ok l vs = true ->
  sfields l (enc_fields l vs ++ rest) = Some (vs, rest).
Proof. exact sfields_enc. Qed.
Print Assumptions C02_table_lemma.

(* any list of actions (all kinds, conntrack nesting to any depth) is walked element by
   element to its exact end *)
Theorem C02_action_lists : forall acts, forallb act_ok acts = true ->
  forall fuel, (length (flat_map wire (map norm (map build_a acts))) < fuel)%nat ->
  sdec_actions fuel (flat_map wire (map norm (map build_a acts))) = Some (map canon (map norm (map build_a acts))).
Proof. exact sdec_built_actions. Qed.
Print Assumptions C02_action_lists.

(* alignment facts that hold for every recipe: every action the API builds fills whole
   8-byte words and its stored length is its size *)
Theorem C02_actions_aligned : forall a, wf_a a = true ->
  consistent (build_a a) = true /\ size (build_a a) mod 8 = 0.
Proof. exact build_a_ok. Qed.
Print Assumptions C02_actions_aligned.

(* ---- hello with any list of version-bitmap elements ([hello_tree xid es]: the elements and
   their bitmaps are exported fields, so a controller can build any such list): each element is
   padded to 64 bits and its length field counts header and bitmaps (fix D46) ---- *)
Theorem C02_hello_walk : forall xid es, bitmaps_ok es = true -> xid < 4294967296 ->
  spec_decode (fst (marshal (hello_tree xid es))) = Some (snd (marshal (hello_tree xid es))).
Proof. exact hello_walk. Qed.
Print Assumptions C02_hello_walk.
Theorem C02_hello_meets_hypothesis : bitmaps_ok [[18]; [1; 2]; []; [4294967295; 0; 7]] = true.
Proof. exact hello_example_wf. Qed.
