(* C12 - parsed messages own their memory.
   Full statement: for every frame the parser accepts, no later write to the input buffer
   changes a field of the returned message or a byte of its re-encoding.
   What is proved here is the ownership half (partial): in the heap model of
   Model/Ownership.v a decoder whose copy sites all copy returns a message no later write can
   reach, a decoder with one exercised site that keeps a sub-slice returns one that the
   complement overwrite changes, and right after decoding the two are indistinguishable.
   That every copy site of the library copies is not a theorem about this model: it is read
   from the source on every run (GenProps/C12g.v: view_sites = []) and exercised by the
   overwrite runs (Corr.Dec.check12).
   Statements only; every proof is [exact lemma]. *)
From Coq Require Import NArith List Bool.
From LOF Require Import Base.Bytes Base.Res Model.Wire Model.Parse Model.Ownership Proofs.OwnershipP.

Theorem C12_owned_message_stable : forall m, owns m = true ->
  forall ops h, observe (hrun ops h) m = observe h m.
Proof. exact owned_stable. Qed.
Print Assumptions C12_owned_message_stable.

Theorem C12_copying_decoder_stable : forall (site : Type) (copies : site -> bool) buf h sc x,
  (forall s o l, In (s, o, l) x -> copies s = true) ->
  forall ops, observe (hrun ops h) (decoded site copies buf h sc x) = observe h (decoded site copies buf h sc x).
Proof. exact copy_policy_stable. Qed.
Print Assumptions C12_copying_decoder_stable.

(* the converse, and the completeness of the check's overwrite *)
Theorem C12_aliasing_decoder_exposed : forall (site : Type) (copies : site -> bool) buf h sc x,
  existsb (live site copies buf h) x = true ->
  observe (scribble buf h) (decoded site copies buf h sc x) <> observe h (decoded site copies buf h sc x).
Proof. exact alias_policy_exposed. Qed.
Print Assumptions C12_aliasing_decoder_exposed.

(* why no test that looks at a message only right after decoding can tell *)
Theorem C12_indistinguishable_at_parse_time : forall (site : Type) (copies : site -> bool) buf h x,
  map (resolve h) (decode_cells site copies buf h x) =
  map (fun e => match e with (_, o, l) => firstn l (skipn o (h buf)) end) x.
Proof. exact decode_faithful. Qed.
Print Assumptions C12_indistinguishable_at_parse_time.

(* the decode model's messages, read as heap objects, are out of reach of any later write *)
Theorem C12_partial : forall d t, parse_top d = Ok t ->
  forall ops h, observe (hrun ops h) (go_of t) = observe h (go_of t).
Proof. exact parsed_message_stable. Qed.
Print Assumptions C12_partial.
