(* C18 - connection-tracking state builder reflects the last call per flag.
   Statements only; every proof is [exact lemma]. *)
From Coq Require Import NArith List.
From LOF Require Import Model.CtStates Proofs.CtStatesP.
Open Scope N_scope.

(* any operation sequence from any builder state: per flag, the mask bit is set iff the
   flag was touched (or was set before), the value bit is the polarity of the most recent
   call for that flag (else what it was) *)
Theorem C18_last_call_wins : forall ops s f,
  N.testbit (ct_mask (ct_run ops s)) (ct_ofs f) =
    match last_call f ops with Some _ => true | None => N.testbit (ct_mask s) (ct_ofs f) end /\
  N.testbit (ct_data (ct_run ops s)) (ct_ofs f) =
    match last_call f ops with Some b => b | None => N.testbit (ct_data s) (ct_ofs f) end.
Proof. exact run_flag. Qed.
Print Assumptions C18_last_call_wins.

(* from a fresh builder: untouched flags stay wildcarded (mask 0, value 0) *)
Theorem C18_fresh_builder : forall ops f,
  N.testbit (ct_mask (ct_run ops NewCTStates)) (ct_ofs f) =
    match last_call f ops with Some _ => true | None => false end /\
  N.testbit (ct_data (ct_run ops NewCTStates)) (ct_ofs f) =
    match last_call f ops with Some b => b | None => false end.
Proof. exact fresh_builder. Qed.
Print Assumptions C18_fresh_builder.

(* a call for one flag never affects another flag *)
Theorem C18_flags_independent : forall s o f, op_flag o <> f ->
  N.testbit (ct_mask (ct_step s o)) (ct_ofs f) = N.testbit (ct_mask s) (ct_ofs f) /\
  N.testbit (ct_data (ct_step s o)) (ct_ofs f) = N.testbit (ct_data s) (ct_ofs f).
Proof. exact other_flag_unaffected. Qed.
Print Assumptions C18_flags_independent.

(* nothing outside the eight flag bits is ever written *)
Theorem C18_no_other_bits : forall ops s i, 8 <= i ->
  N.testbit (ct_mask (ct_run ops s)) i = N.testbit (ct_mask s) i /\
  N.testbit (ct_data (ct_run ops s)) i = N.testbit (ct_data s) i.
Proof. exact run_other_bits. Qed.
Print Assumptions C18_no_other_bits.
