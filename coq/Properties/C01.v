(* C01 - sent messages are framed exactly: version 1.3, the kind's type code, and a length
   field equal to the bytes produced, which is also the size the message reports.
   Statements only; every proof is [exact lemma]. *)
From Coq Require Import NArith List Bool.
From Coq.Strings Require Import Byte.
From LOF Require Import Base.Bytes Model.Wire Model.Build Proofs.WireP Proofs.BuildP Proofs.NormP Proofs.FramingP Model.BuildSw Proofs.HelloBaseP.
Import ListNotations.
Open Scope N_scope.

(* every controller-originated message built through the API (hello, echo request/reply,
   features/get-config/barrier request, set-config, flow-mod with any command, group-mod
   with any command, packet-out, port-mod, multipart requests, NXT vendor messages, bundle
   control, bundle add wrapping any of them): the bytes start with version 4, the type
   code of the kind, the 16-bit length = number of bytes produced = Len(), then the xid *)
Theorem C01_framing : forall m xid, wf_m m = true -> xid < 4294967296 ->
  let t := build_m xid m in
  exists tail, fst (marshal t) = be8 4 ++ be8 (msg_type m) ++ be16 (glen t) ++ be32 xid ++ tail /\
               glen t = N.of_nat (length (fst (marshal t))).
Proof. exact built_framing. Qed.
Print Assumptions C01_framing.

(* the length field read back from the bytes is the byte count whenever the message fits
   the 16-bit field *)
Theorem C01_length_field : forall m xid, wf_m m = true -> xid < 4294967296 ->
  let b := fst (marshal (build_m xid m)) in
  N.of_nat (length b) <= 65535 ->
  be_value (firstn 1 b) = 4 /\ be_value (firstn 1 (skipn 1 b)) = msg_type m /\
  be_value (firstn 2 (skipn 2 b)) = N.of_nat (length b).
Proof. exact built_length_field. Qed.
Print Assumptions C01_length_field.

(* ---- hello with any list of version-bitmap elements ([hello_tree xid es]: the elements and
   their bitmaps are exported fields, so a controller can build any such list): each element is
   padded to 64 bits and its length field counts header and bitmaps (fix D46) ---- *)
Theorem C01_hello_framing : forall xid es,
  let t := hello_tree xid es in
  exists tail, fst (marshal t) = be8 4 ++ be8 0 ++ be16 (glen t) ++ be32 xid ++ tail /\
               glen t = N.of_nat (length (fst (marshal t))).
Proof. exact hello_framing. Qed.
Print Assumptions C01_hello_framing.
