(* C17 - the generic match-field builder places value and mask correctly or reports an
   error. Statements only; every proof is [exact lemma]. *)
From Coq Require Import ZArith NArith List String Bool.
From Coq.Strings Require Import Byte.
From LOF Require Import Base.Bytes Base.Res Model.Registry Model.NewMatchField Proofs.NewMatchFieldP.
Import ListNotations.
Open Scope Z_scope.

(* any registered field (lookup succeeded), value v and window (s, w) inside the field
   with v spanning at most the window: the value is v placed at the window, the mask
   covers exactly the window, both have the field's width W; also for the three-argument
   form with the shift flag set *)
Theorem C17_window : forall name h v s w tail,
  FindFieldHeaderByName name true = Some h -> (tail = [] \/ tail = [1]) ->
  let W := (fh_length h / 2)%N in
  0 <= v < 2 ^ w -> 0 <= s -> 0 <= w -> s + w <= Z.of_N W * 8 ->
  NewMatchField name v (s :: w :: tail) =
  Ok {| gf_hdr := h ;
        gf_value := be_bytes (N.to_nat W) (Z.to_N (v * 2 ^ s)) ;
        gf_mask := Some (be_bytes (N.to_nat W) (Z.to_N ((2 ^ w - 1) * 2 ^ s))) |}.
Proof. exact window_form_ok. Qed.
Print Assumptions C17_window.

(* the value has no bit outside the mask *)
Theorem C17_value_inside_mask : forall v s w, 0 <= v < 2 ^ w -> 0 <= s -> 0 <= w ->
  Z.land (v * 2 ^ s) (Z.lnot ((2 ^ w - 1) * 2 ^ s)) = 0.
Proof. exact window_value_inside_mask. Qed.
Print Assumptions C17_value_inside_mask.

(* exact-match form *)
Theorem C17_exact : forall name h v,
  FindFieldHeaderByName name false = Some h -> 0 <= v < 2 ^ (Z.of_N (fh_length h) * 8) ->
  NewMatchField name v [] =
  Ok {| gf_hdr := h ; gf_value := be_bytes (N.to_nat (fh_length h)) (Z.to_N v) ; gf_mask := None |}.
Proof. exact exact_form_ok. Qed.
Print Assumptions C17_exact.

(* what cannot be represented is an error: value wider than the window, window beyond the
   field, negative value, value wider than the field *)
Theorem C17_value_wider_than_window : forall name v s w tail,
  (tail = [] \/ tail = [1]) -> 0 <= v -> 0 <= s -> 0 <= w -> 2 ^ w <= v ->
  NewMatchField name v (s :: w :: tail) = Err.
Proof. exact window_too_wide_value. Qed.
Print Assumptions C17_value_wider_than_window.

Theorem C17_window_beyond_field : forall name h v s w tail,
  FindFieldHeaderByName name true = Some h -> Z.of_N (fh_length h / 2) * 8 < s + w ->
  NewMatchField name v (s :: w :: tail) = Err.
Proof. exact window_beyond_field. Qed.
Print Assumptions C17_window_beyond_field.

Theorem C17_negative : forall name v masks, v < 0 -> NewMatchField name v masks = Err.
Proof. exact negative_is_error. Qed.
Print Assumptions C17_negative.

Theorem C17_exact_too_wide : forall name h v,
  FindFieldHeaderByName name false = Some h -> 2 ^ (Z.of_N (fh_length h) * 8) <= v ->
  NewMatchField name v [] = Err.
Proof. exact exact_too_wide. Qed.
Print Assumptions C17_exact_too_wide.

(* never a panic: for every name, value and argument list the result is a field or an error *)
Theorem C17_never_panics : forall name v masks,
  NewMatchField name v masks <> Panic /\ NewMatchField name v masks <> Fuel.
Proof. exact never_panics. Qed.
Print Assumptions C17_never_panics.

(* 32-bit registers: the same bytes as the dedicated register constructor given the placed
   value and the range's mask *)
Theorem C17_register_same_bytes : forall idx v s w,
  (idx < 16)%nat -> 0 <= v < 2 ^ w -> 0 <= s -> 0 <= w -> s + w <= 32 ->
  exists f, NewMatchField (reg_name idx) v [s; w] = Ok f /\
  enc_genfield f = enc_reg_field idx (Z.to_N (v * 2 ^ s)) (Z.to_N ((2 ^ w - 1) * 2 ^ s)).
Proof. exact reg_same_bytes. Qed.
Print Assumptions C17_register_same_bytes.
