(* C06 - reported size equals encoded size; containers embed children intact.
   Statements only; every proof is [exact lemma]. *)
From Coq Require Import NArith List Bool.
From Coq.Strings Require Import Byte.
From LOF Require Import Base.Bytes Model.Wire Model.Build Proofs.WireP Proofs.BuildP Proofs.NormP Model.BuildSw Proofs.HelloBaseP.
Import ListNotations.
Open Scope N_scope.

(* every consistent value: Len() = number of bytes MarshalBinary produces (before and
   after the call) *)
Theorem C06_len_is_size : forall t, consistent t = true ->
  glen t = N.of_nat (length (fst (marshal t))) /\ glen (snd (marshal t)) = glen t /\
  marshal (snd (marshal t)) = marshal t.
Proof. exact marshal_len. Qed.
Print Assumptions C06_len_is_size.

(* everything the constructors and adders can build is consistent: messages (any command,
   any number and mix of fields, instructions, actions, buckets, nested bundles) ... *)
Theorem C06_built_messages_consistent : forall m xid, wf_m m = true -> consistent (build_m xid m) = true.
Proof. exact build_m_ok. Qed.
Print Assumptions C06_built_messages_consistent.

(* ... and stand-alone elements; actions always fill whole 8-byte words *)
Theorem C06_built_actions_consistent : forall a, wf_a a = true ->
  consistent (build_a a) = true /\ size (build_a a) mod 8 = 0.
Proof. exact build_a_ok. Qed.
Print Assumptions C06_built_actions_consistent.

Theorem C06_built_match_fields_consistent : forall f, consistent (build_mf f) = true.
Proof. exact build_mf_ok. Qed.
Theorem C06_built_matches_consistent : forall fs, consistent (build_match fs) = true.
Proof. exact build_match_ok. Qed.
Theorem C06_built_instructions_consistent : forall i, wf_i i = true -> consistent (build_i i) = true.
Proof. exact build_i_ok. Qed.
Theorem C06_built_buckets_consistent : forall b, wf_b b = true -> consistent (build_b b) = true.
Proof. exact build_b_ok. Qed.
Print Assumptions C06_built_buckets_consistent.

(* a container's bytes are its own fields, then the complete, unmodified encodings of its
   children in order, then fewer than 8 zero bytes *)
Theorem C06_children_embedded : forall k vs kids,
  exists pad, wire (T k vs kids) = enc_fields (layout k) vs ++ flat_map wire kids ++ zeros pad /\ (pad < 8)%nat.
Proof. exact wire_embeds. Qed.
Print Assumptions C06_children_embedded.

Theorem C06_child_intact : forall k vs l1 x l2,
  exists pre post, wire (T k vs (l1 ++ x :: l2)) = pre ++ wire x ++ post.
Proof. exact child_intact. Qed.
Print Assumptions C06_child_intact.

(* ---- hello with any list of version-bitmap elements ([hello_tree xid es]: the elements and
   their bitmaps are exported fields, so a controller can build any such list): each element is
   padded to 64 bits and its length field counts header and bitmaps (fix D46) ---- *)
Theorem C06_built_hello_consistent : forall xid es, consistent (hello_tree xid es) = true.
Proof. exact hello_consistent. Qed.
