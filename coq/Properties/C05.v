(* C05 - decoding an encoding gives back the same value (library round trip).
   Statements only; every proof is [exact lemma]. *)
From Coq Require Import NArith ZArith List Bool.
From Coq.Strings Require Import Byte.
From LOF Require Import Base.Bytes Base.Res Model.Wire Model.Build Model.Parse Proofs.ParseRtP.
Import ListNotations.
Open Scope N_scope.

(* THE FULL STATEMENT (checked by the correspondence run on random values of every kind,
   proved here for the examples below): parsing the encoding of an API-built message gives
   back the built value, and re-encoding it the same bytes. *)
Definition C05_full_statement : Prop :=
  forall m xid, xid < 4294967296 -> size (build_m xid m) <= 65535 ->
  parse_top (fst (marshal (build_m xid m))) = Ok (snd (marshal (build_m xid m))).

(* the whole stack on rich values: a flow-mod with masked fields, conntrack + NAT, learn,
   note, set-field, dec-ttl ids; a group-mod with buckets; a bundle-add nesting a flow-mod *)
Theorem C05_roundtrip_examples : Forall (fun t => parse_top (fst (marshal t)) = Ok (snd (marshal t))) rt_examples.
Proof. exact rt_examples_ok. Qed.
Print Assumptions C05_roundtrip_examples.
