(* C05 - decoding an encoding gives back the same value (library round trip).
   Statements only; every proof is [exact lemma]. *)
From Coq Require Import NArith ZArith List Bool.
From Coq.Strings Require Import Byte.
From LOF Require Import Base.Bytes Base.Res Model.Wire Model.Build Model.Parse Spec.Walk Proofs.ParseRtP
  Proofs.WalkAllP Proofs.WalkMsgP Proofs.ParseRtAllP Proofs.ParseRtAll3P Proofs.ParseRtAll4P Proofs.ParseRtAll6P Proofs.ParseRtAll7P
  Model.BuildSw Proofs.NormP Proofs.ParseSwAll2P Proofs.ParseSwAll3P Proofs.ParseSwRtP Proofs.HelloBaseP Proofs.HelloP.
Import ListNotations.
Open Scope N_scope.

(* THE FULL STATEMENT: parsing the encoding of an API-built message gives back the built
   value, and re-encoding what was parsed gives the same bytes. *)
Definition C05_full_statement : Prop :=
  forall m xid, xid < 4294967296 -> size (build_m xid m) <= 65535 ->
  parse_top (fst (marshal (build_m xid m))) = Ok (pview xid m) /\
  fst (marshal (pview xid m)) = fst (marshal (build_m xid m)).

(* THE THEOREM, for every controller-side message recipe whose arguments fit their fields
   ([pmsg_ok]: the hypothesis of C02/C03 with the decoder's own table instead of the
   specification's - register numbers below 16, tunnel-metadata numbers below 8; port / queue
   statistics requests excluded, finding D10): the parser entry point returns [pview xid m] -
   the built value after MarshalBinary's write-backs as a wire reader sees it (a note's padding
   belongs to the note, the port-mod address slot at its 6 bytes) with a payload child on every
   packet-out, possibly empty - and encoding that value again gives the original bytes.
   By induction over recipes (Proofs/ParseRtAllP.v .. ParseRtAll7P.v): every action kind,
   conntrack nesting to any depth, match fields against the decoder's own width table (a
   complete sweep shows it agrees with the constructors' table), instructions, buckets, the
   thirteen message kinds, bundles nested to any depth. *)
Theorem C05_roundtrip : forall m xid, pmsg_ok m = true -> xid < 4294967296 ->
  let bytes := fst (marshal (build_m xid m)) in
  parse_top bytes = Ok (pview xid m) /\ fst (marshal (pview xid m)) = bytes.
Proof. exact parse_roundtrip. Qed.
Print Assumptions C05_roundtrip.

(* the elements on their own, in front of any following bytes *)
Theorem C05_actions : forall a, pact_ok a = true -> forall fuel rest, (adepth a <= fuel)%nat ->
  dec_action (S fuel) (wire (norm (build_a a)) ++ rest) = Ok (canon (norm (build_a a))).
Proof. exact dec_built_action. Qed.
Print Assumptions C05_actions.

Theorem C05_match_fields : forall r rest, pmf_ok r = true -> dec_mf (wire (build_mf r) ++ rest) = Ok (build_mf r).
Proof. exact dec_built_mf. Qed.
Print Assumptions C05_match_fields.

Theorem C05_instructions : forall i rest, pinstr_ok i = true ->
  dec_instr (wire (norm (build_i i)) ++ rest) = Ok (canon (norm (build_i i))).
Proof. exact dec_built_instr. Qed.
Print Assumptions C05_instructions.

Theorem C05_buckets : forall b rest, pbucket_ok b = true ->
  dec_bucket (wire (norm (build_b b)) ++ rest) = Ok (canon (norm (build_b b)), false).
Proof. exact dec_built_bucket. Qed.
Print Assumptions C05_buckets.

(* the view re-encodes to the bytes of the value (for every recipe, every xid) *)
Theorem C05_view_reencodes : forall m, pmsg_ok m = true -> forall xid,
  wire (norm (pview xid m)) = wire (norm (build_m xid m)) /\ glen (norm (pview xid m)) = glen (norm (build_m xid m)).
Proof. exact Rv_all. Qed.
Print Assumptions C05_view_reencodes.

(* non-vacuity: rich recipes meet the hypothesis; and exact equality (no view needed) on
   concrete values by computation *)
Theorem C05_example_meets_hypothesis :
  let r := MFlowMod 1 2 3 0 4 5 6 7 8 9 10
    [MFStd 1 (AB []) (Some (AB [])); MFReg 3 7 (Some (4%Z, 9%Z)); MFStd 7 (AB []) None; MFTunMeta 2 [x01; x02; x03] []]
    [IApply [(ACT [CtCommit; CtZoneImm 5] 0 [ANat [NatSNAT; NatIP4Min []; NatProtoMax 9]; ASetField (MFStd 3 (AN 2048) None)], false);
             (ADecTtlCntIds 3 [1; 2; 3], true); (ANote [x0a; x0b; x0c; x0d; x0e; x0f; x10], false);
             (ALearn 1 2 3 4 5 6 7 8 [LSpec 0 16 ((0,0,false,0),0) ((1,3,false,4),0) [x01;x02]; LSpec 4 8 ((1,2,false,4),0) ((0,0,false,0),0) []], false)];
     IGoto 4; IWriteMeta 5 6] in
  pmsg_ok r = true /\ pmsg_ok (MBundleAdd 1 2 3 (MBundleAdd 4 5 6 (MPacketOut 1 2 [AOutput 3 4] None))) = true /\ pmsg_ok (MBundleAdd 1 2 3 r) = true.
Proof. exact c05_example_ok. Qed.
Print Assumptions C05_example_meets_hypothesis.

Theorem C05_roundtrip_examples : Forall (fun t => parse_top (fst (marshal t)) = Ok (snd (marshal t))) rt_examples.
Proof. exact rt_examples_ok. Qed.
Print Assumptions C05_roundtrip_examples.

(* ---- the switch-side kinds, which the library also encodes: a value parsed from its frame
   re-encodes to the same bytes (the frame is the specification encoding of the value, which
   the correspondence run ties to the library's own encoder).  [sw_plain]: every kind of
   Model/BuildSw.v except flow statistics (next theorem) and a packet-in without packet data,
   to which the parser attaches the zero Ethernet value, so that it re-encodes 14 bytes longer
   (a library-built packet-in always carries an Ethernet value; see C04 for the parse side) *)
Theorem C05_switch_side_roundtrip : forall s xid, sw_ok s = true -> sw_payload_ok s -> sw_payload_shaped s -> sw_plain s = true -> xid < 4294967296 ->
  parse_top (wire (sw_tree xid s)) = Ok (sw_tree xid s) /\ fst (marshal (sw_tree xid s)) = wire (sw_tree xid s).
Proof. exact sw_roundtrip. Qed.
Print Assumptions C05_switch_side_roundtrip.

(* flow statistics, any number of records with any instructions: the parsed records carry the
   instructions in their wire view, and re-encode to the written records *)
Theorem C05_flow_statistics_roundtrip : forall fl recs xid, sw_ok (SMpFlow fl recs) = true -> xid < 4294967296 ->
  parse_top (wire (sw_tree xid (SMpFlow fl recs))) = Ok (sw_view xid (SMpFlow fl recs)) /\
  fst (marshal (sw_view xid (SMpFlow fl recs))) = wire (sw_tree xid (SMpFlow fl recs)).
Proof. exact sw_flowstats_roundtrip. Qed.
Print Assumptions C05_flow_statistics_roundtrip.

(* ---- hello with any list of version-bitmap elements ([hello_tree xid es]: the elements and
   their bitmaps are exported fields, so a controller can build any such list): each element is
   padded to 64 bits and its length field counts header and bitmaps (fix D46) ---- *)
Theorem C05_hello_roundtrip : forall xid es, bitmaps_ok es = true -> xid < 4294967296 ->
  let bytes := fst (marshal (hello_tree xid es)) in
  parse_top bytes = Ok (snd (marshal (hello_tree xid es))) /\ fst (marshal (snd (marshal (hello_tree xid es)))) = bytes.
Proof. exact hello_roundtrip. Qed.
Print Assumptions C05_hello_roundtrip.
