(* C09 - packet headers round-trip; bit-fields stay in lane; payload demux is right.
   Statements only; every proof is [exact lemma].
   Proved for all values: the bit-lane lemmas, the demultiplexing rules and the round trip of
   whole frames (C09_roundtrip, over packet recipes), and the round trips of the kinds that are
   not reached from the Ethernet decoder: IGMP v1/v2/v3, DHCP with its options, the LLDP TLVs
   and header, the stand-alone 802.1Q tag and IPv6 option (Model/Proto2.v). *)
From Coq Require Import NArith List Bool.
From Coq.Strings Require Import Byte.
From LOF Require Import Proofs.PktRtP Base.Bytes Base.Res Model.Wire Model.Proto Model.Proto2 Proofs.ProtoP Proofs.Proto2RtP.
Import ListNotations.
Open Scope N_scope.

(* sub-byte fields never disturb their neighbours *)
Theorem C09_vlan_tci_lanes : forall pcp dei vid, pcp < 8 -> dei < 2 -> vid < 4096 ->
  unpack_tci (pack_tci pcp dei vid) = (pcp, dei, vid).
Proof. exact tci_lanes. Qed.
Theorem C09_vlan_tci_words : forall w, w < 65536 ->
  let '(p, d, v) := unpack_tci w in pack_tci p d v = w /\ p < 8 /\ d < 2 /\ v < 4096.
Proof. exact tci_words. Qed.
Theorem C09_ipv4_version_ihl_lanes : forall v ihl, v < 16 -> ihl < 16 -> unpack_vihl (pack_vihl v ihl) = (v, ihl).
Proof. exact vihl_lanes. Qed.
Theorem C09_ipv4_dscp_ecn_lanes : forall dscp ecn, dscp < 64 -> ecn < 4 -> unpack_tos (pack_tos dscp ecn) = (dscp, ecn).
Proof. exact tos_lanes. Qed.
Theorem C09_ipv4_flags_fragment_lanes : forall flags off, flags < 8 -> off < 8192 -> unpack_frag (pack_frag flags off) = (flags, off).
Proof. exact frag_lanes. Qed.
Theorem C09_ipv6_class_flow_lanes : forall v tc fl, v < 16 -> tc < 256 -> fl < 1048576 -> unpack_v6 (pack_v6 v tc fl) = (v, tc, fl).
Proof. exact v6_lanes. Qed.
Theorem C09_ipv6_fragment_lanes : forall off more, off < 8192 -> unpack_frag6 (pack_frag6 off more) = (off, more).
Proof. exact frag6_lanes. Qed.
Theorem C09_tcp_offset_flags_lanes : forall hl code, hl < 16 -> code < 64 ->
  unpack_tcp_off (pack_tcp_off hl) = hl /\ mask_tcp_code code = code.
Proof. exact tcp_lanes. Qed.
Theorem C09_igmpv3_s_qrv_lanes : forall s qrv, qrv < 8 -> unpack_sqrv (pack_sqrv s qrv) = (s, qrv).
Proof. exact sqrv_lanes. Qed.
Print Assumptions C09_ipv6_class_flow_lanes.

(* the payload decoder is chosen by the ethertype found after any tag ... *)
Theorem C09_demux_untagged : forall d, 14 <= blen d -> be_value (firstn 2 (skipn 12 d)) <> 33024 ->
  dec_eth d =
  (p <- dec_payload (be_value (firstn 2 (skipn 12 d))) (skipn 14 d) ;;
   Ok (T KEth [VB (firstn 6 d); VB (firstn 6 (skipn 6 d))] [T KU16 [VN (be_value (firstn 2 (skipn 12 d)))] []; p]))%res.
Proof. exact eth_demux_untagged. Qed.
Theorem C09_demux_tagged : forall d, 18 <= blen d -> be_value (firstn 2 (skipn 12 d)) = 33024 ->
  exists kids, dec_eth d =
  (p <- dec_payload (be_value (firstn 2 (skipn 16 d))) (skipn 18 d) ;;
   Ok (T KEth [VB (firstn 6 d); VB (firstn 6 (skipn 6 d))] (kids ++ [T KU16 [VN (be_value (firstn 2 (skipn 16 d)))] []; p])))%res.
Proof. exact eth_demux_tagged. Qed.
Theorem C09_payload_by_ethertype : forall et d,
  dec_payload et d = if N.eqb et 2048 then dec_ip4 d else if N.eqb et 34525 then dec_ip6 d
                     else if N.eqb et 2054 then dec_arp d else Ok (raw d).
Proof. exact payload_by_ethertype. Qed.
(* ... and, after the IPv6 extension headers, by the last next-header value *)
Theorem C09_ipv6_chain_end : forall fuel nh d, nh <> 0 -> nh <> 43 -> nh <> 44 ->
  dec_chain (S fuel) nh d =
  if N.eqb nh 58 then (p <- dec_icmp d ;; Ok [p])%res else if N.eqb nh 17 then (p <- dec_udp d ;; Ok [p])%res else Ok [raw d].
Proof. exact chain_step_l4. Qed.
Print Assumptions C09_demux_tagged.

(* full round-trip statement, not proved in general (the correspondence run checks it on
   random well-formed frames) *)
(* ---- the round trip ----
   Packets as recipes (Proofs/PktRtP.v): an Ethernet frame with or without an 802.1Q tag, carrying
   ARP, IPv4 (with options; ICMP / UDP / opaque payload selected by the protocol number), IPv6
   (any chain of hop-by-hop / routing / fragment headers, each naming the next, ending in
   ICMPv6 / UDP / opaque) or an opaque payload, selected by the ethertype behind the tag.
   [eth_ok]: every field within its width, addresses at their sizes, IHL >= 5 and the options
   exactly IHL*4-20 bytes, extension headers exactly 8*(len+1) bytes with well-formed options,
   selectors consistent with the parts present; a tag is present exactly when its TCI is not 0
   (priority tags - VLAN id 0 with a priority - included, since fix D31). *)
Theorem C09_roundtrip : forall e, eth_ok e = true -> dec_eth (wire (eth_tree e)) = Ok (eth_tree e).
Proof. exact dec_eth_rt. Qed.
Print Assumptions C09_roundtrip.

Theorem C09_roundtrip_nonvacuous :
  eth_ok {| e_dst := [x01;x02;x03;x04;x05;x06]; e_src := [x0a;x0b;x0c;x0d;x0e;x0f]; e_tci := Some 40965; e_type := 34525;
            e_pl := L3Ip6 {| i6_w0 := 1610612736; i6_len := 44; i6_hop := 64; i6_src := zeros 16; i6_dst := zeros 16;
                             i6_exts := [XHbh 0 [x05;x02;x00;x00;x01;x00]; XRouting 1 0 0 (zeros 12); XFrag 0 8 77];
                             i6_fin := 17; i6_pl := L4Udp 53 4242 12 0 [x01;x02;x03;x04] |} |} = true.
Proof. exact eth_example_ok. Qed.

Theorem C09_ipv6_chain : forall xs fin p fuel, forallb ext_ok xs = true -> l4_ok p = true -> fin_ok fin p = true ->
  (length (flat_map wire (chain_trees xs fin p)) < fuel)%nat ->
  dec_chain fuel (chain_first xs fin) (flat_map wire (chain_trees xs fin p)) = Ok (chain_trees xs fin p).
Proof. exact (fun xs fin p fuel H1 H2 H3 H4 => eq_trans (f_equal _ (eq_sym (app_nil_r _))) (dec_chain_rt xs fin p [] fuel H1 H2 H3 H4 eq_refl)). Qed.
Print Assumptions C09_ipv6_chain.

Theorem C09_tcp : forall sp dp sq ak b12 code win cs urg rest,
  sp < 65536 -> dp < 65536 -> sq < 4294967296 -> ak < 4294967296 -> b12 < 256 -> code < 256 -> win < 65536 -> cs < 65536 -> urg < 65536 ->
  pack_tcp_off (unpack_tcp_off b12) = b12 -> mask_tcp_code code = code ->
  let t := T KTcp [VN sp; VN dp; VN sq; VN ak; VN b12; VN code; VN win; VN cs; VN urg; VB rest] [] in
  dec_tcp (wire t) = Ok t.
Proof. exact dec_tcp_rt. Qed.
Print Assumptions C09_tcp.

(* the converse direction (re-encoding whatever decodes) is false in general: *)
Definition C09_roundtrip_full_statement : Prop :=
  forall frame t, dec_eth frame = Ok t -> wire t = frame.

Theorem C09_roundtrip_example :
  let udp := be16 53 ++ be16 4242 ++ be16 12 ++ be16 0 ++ [x01; x02; x03; x04] in
  let ip4 := [x45; x00] ++ be16 32 ++ be16 7 ++ be16 16384 ++ [x40; x11] ++ be16 0 ++ [x0a; x00; x00; x01; x0a; x00; x00; x02] ++ udp in
  let frame := [x01; x02; x03; x04; x05; x06; x0a; x0b; x0c; x0d; x0e; x0f] ++ be16 33024 ++ be16 (pack_tci 5 1 100) ++ be16 2048 ++ ip4 in
  match dec_eth frame with Ok t => wire t = frame | _ => False end.
Proof. exact eth_roundtrip_examples. Qed.

(* a tag whose TCI is 0x0000 is the one frame shape that decodes but is not re-encoded: for
   this library the value "no VLAN, priority 0, no DEI" is the untagged frame *)
Theorem C09_zero_tag_not_reencoded :
  let frame := zeros 12 ++ be16 33024 ++ be16 0 ++ be16 35020 ++ [x01; x02] in
  exists t, dec_eth frame = Ok t /\ wire t <> frame.
Proof. exact zero_tag_lost. Qed.

(* a priority tag (VLAN id 0, priority 5) round-trips (it did not before fix D31) *)
Theorem C09_priority_tag_kept :
  let frame := zeros 12 ++ be16 33024 ++ be16 (pack_tci 5 0 0) ++ be16 35020 ++ [x01; x02] in
  match dec_eth frame with Ok t => wire t = frame | _ => False end.
Proof. exact priority_tag_kept. Qed.

(* ---- IGMP, DHCP, LLDP, 802.1Q tag, IPv6 option: for every well-formed value (fields within
   their widths, counts equal to the number of parts present, sizes below 64 KiB) decoding the
   encoding gives the value back and the encoding has the size the value reports ---- *)
Theorem C09_igmp12_roundtrip : forall p, wf_igmp12 p = true ->
  dec_igmp12 (enc_igmp12 p) = Ok p /\ blen (enc_igmp12 p) = len_igmp12 p.
Proof. exact igmp12_rt. Qed.
Theorem C09_igmp3_query_roundtrip : forall p, wf_igmp3q p = true ->
  dec_igmp3q (enc_igmp3q p) = Ok p /\ blen (enc_igmp3q p) = len_igmp3q p.
Proof. exact igmp3q_rt. Qed.
(* a group record is decoded in place: whatever follows it *)
Theorem C09_igmp3_record_roundtrip : forall g rest, wf_gr g = true ->
  dec_gr (enc_gr g ++ rest) = Ok g /\ blen (enc_gr g) = size_gr g /\ len_gr g = size_gr g.
Proof. exact gr_rt. Qed.
Theorem C09_igmp3_report_roundtrip : forall p, wf_report p = true ->
  dec_report (enc_report p) = Ok p /\ blen (enc_report p) = len_report p.
Proof. exact report_rt. Qed.
Print Assumptions C09_igmp3_report_roundtrip.
(* DHCP: any number of options (pad options included) in any order; the end option is written
   by the encoder and consumed by the decoder *)
Theorem C09_dhcp_roundtrip : forall p, wf_dhcp p = true ->
  exists b, enc_dhcp p = Ok b /\ dec_dhcp b = Ok p /\ blen b = len_dhcp p.
Proof. exact dhcp_rt. Qed.
Print Assumptions C09_dhcp_roundtrip.
Theorem C09_lldp_tlv_roundtrip : forall t rest, wf_tlv t = true ->
  dec_tlv (enc_tlv t ++ rest) = (3 + t_len t, false, t) /\ blen (enc_tlv t) = 3 + t_len t.
Proof. exact tlv_rt. Qed.
Theorem C09_lldp_ttl_roundtrip : forall t rest, wf_ttl t = true ->
  dec_ttl (enc_ttl t ++ rest) = (4, false, t) /\ blen (enc_ttl t) = 4.
Proof. exact ttl_rt. Qed.
Theorem C09_lldp_roundtrip : forall p, wf_lldp p = true ->
  dec_lldp (enc_lldp p) = (blen (enc_lldp p), false, p) /\ blen (enc_lldp p) = len_lldp p.
Proof. exact lldp_rt. Qed.
Print Assumptions C09_lldp_roundtrip.
Theorem C09_vlan_roundtrip : forall v, wf_vlan v = true -> dec_vlan (enc_vlan v) = Ok v /\ blen (enc_vlan v) = 4.
Proof. exact vlan_rt. Qed.
Theorem C09_ipv6_option_roundtrip : forall o rest, wf_v6opt o = true ->
  dec_v6opt (enc_v6opt o ++ rest) = Ok o /\ blen (enc_v6opt o) = len_v6opt o.
Proof. exact v6opt_rt. Qed.
Theorem C09_record_kinds_nonvacuous :
  wf_gr ex_gr = true /\ wf_report ex_report = true /\ wf_igmp3q ex_query = true /\ wf_dhcp ex_dhcp = true /\ wf_lldp ex_lldp = true.
Proof. exact examples_wf. Qed.
