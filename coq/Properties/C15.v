(* C15 - match-field registry: names map to the right class, number and width; the 32-bit
   header packing and unpacking are inverse for every header.
   Statements only; every proof is [exact lemma]. *)
From Coq Require Import NArith List String Bool.
From LOF Require Import Model.Registry Spec.OvsFields Proofs.RegistryP.
Open Scope N_scope.

(* every registered name carries the class, field number and payload width that
   OpenFlow 1.3 / Open vSwitch define (finite domain: the registered names; decided by a
   complete sweep lifted with forallb_forall); widths stay below 128 so doubling cannot wrap *)
Theorem C15_registry_matches_spec : forall name c f w, In (name, (c, f, w)) registry ->
  spec_entry name = Some (c, f, w) /\ w < 128.
Proof. exact registry_matches_spec. Qed.
Print Assumptions C15_registry_matches_spec.

(* a successful lookup (any letter case) yields the spec's class, number and width, the
   width doubled and the mask flag set exactly when a mask is requested *)
Theorem C15_lookup : forall name hm h, FindFieldHeaderByName name hm = Some h ->
  exists c f w, spec_entry (upper name) = Some (c, f, w) /\
    fh_class h = c /\ fh_field h = f /\ fh_hasmask h = hm /\
    fh_length h = (if hm then 2 * w else w) /\ fh_length h < 256.
Proof. exact find_spec. Qed.
Print Assumptions C15_lookup.

Theorem C15_case_insensitive : forall a b hm, upper a = upper b ->
  FindFieldHeaderByName a hm = FindFieldHeaderByName b hm.
Proof. exact find_case_insensitive. Qed.
Print Assumptions C15_case_insensitive.

(* packing is the specified layout and unpacking inverts it, for every header ... *)
Theorem C15_unpack_pack : forall h, fh_wf h = true ->
  MarshalHeader h = spec_header (fh_class h) (fh_field h) (fh_hasmask h) (fh_length h) /\
  UnmarshalHeader (MarshalHeader h) = h.
Proof. exact (fun h H => conj (marshal_is_spec h H) (unpack_pack h H)). Qed.
Print Assumptions C15_unpack_pack.

(* ... and for every one of the 2^32 header words (algebra on N, no enumeration) *)
Theorem C15_pack_unpack : forall w, w < 4294967296 -> MarshalHeader (UnmarshalHeader w) = w.
Proof. exact pack_unpack. Qed.
Print Assumptions C15_pack_unpack.
