(* C07 - the OpenFlow parser is total: any bytes give a message or an error.
   Statements only; every proof is [exact lemma]. *)
From Coq Require Import NArith List Bool.
From Coq.Strings Require Import Byte.
From LOF Require Import Base.Bytes Base.Res Model.Wire Model.Parse Proofs.ParseP.
Open Scope N_scope.

(* THE FULL STATEMENT: for every byte string the entry point returns a message or an error:
   no panic, and the model's recursion fuel S |d| is never exhausted (= every loop of every
   nested decoder makes progress). *)
Definition C07_full_statement : Prop :=
  forall d, parse_top d <> Panic /\ parse_top d <> Fuel.

(* proved: no panic escapes, for every byte string (the entry point recovers; every slice
   and index operation of the nested decoders is a panicking primitive in the model) *)
Theorem C07_never_panics : forall d, parse_top d <> Panic.
Proof. exact parse_top_never_panics. Qed.
Print Assumptions C07_never_panics.

Theorem C07_short_input_is_error : forall d, (length d < 2)%nat -> parse_top d = Err.
Proof. exact parse_short. Qed.
Print Assumptions C07_short_input_is_error.
