(* C07 - the OpenFlow parser is total: any bytes give a message or an error.
   Statements only; every proof is [exact lemma]. *)
From Coq Require Import NArith List Bool.
From Coq.Strings Require Import Byte.
From LOF Require Import Base.Bytes Base.Res Model.Wire Model.Parse Proofs.ParseP Proofs.ParseNfP.
Open Scope N_scope.

(* THE FULL STATEMENT: for every byte string the entry point returns a message or an error:
   no panic, and the model's recursion fuel S |d| is never exhausted (= every loop of every
   nested decoder makes progress and every nesting shortens the data, so the work is bounded
   by the input). *)
Definition C07_full_statement : Prop :=
  forall d, parse_top d <> Panic /\ parse_top d <> Fuel.

Theorem C07_parser_is_total : C07_full_statement.
Proof. exact (fun d => conj (parse_top_never_panics d) (parse_top_never_out_of_fuel d)). Qed.
Print Assumptions C07_parser_is_total.

(* the same, as a dichotomy *)
Theorem C07_message_or_error : forall d, (exists t, parse_top d = Ok t) \/ parse_top d = Err.
Proof. exact parse_top_message_or_error. Qed.
Print Assumptions C07_message_or_error.

(* no panic escapes, for every byte string (the entry point recovers; every slice and index
   operation of the nested decoders is a panicking primitive in the model) *)
Theorem C07_never_panics : forall d, parse_top d <> Panic.
Proof. exact parse_top_never_panics. Qed.
Print Assumptions C07_never_panics.

(* every loop terminates within the fuel S |d| given at the entry point, for every byte
   string: each iteration advances by at least one byte (an element that reports size 0
   ends the loop) and reads beyond the end panic, so a loop runs at most |d| times;
   conntrack actions and bundled messages nest on strictly shorter data *)
Theorem C07_never_out_of_fuel : forall d, parse_top d <> Fuel.
Proof. exact parse_top_never_out_of_fuel. Qed.
Print Assumptions C07_never_out_of_fuel.

Theorem C07_short_input_is_error : forall d, (length d < 2)%nat -> parse_top d = Err.
Proof. exact parse_short. Qed.
Print Assumptions C07_short_input_is_error.
