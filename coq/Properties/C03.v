(* C03 - encoded fields sit at their specified offsets with the supplied values.
   Statements only; every proof is [exact lemma]. *)
From Coq Require Import NArith ZArith List Bool.
From Coq.Strings Require Import Byte.
From LOF Require Import Base.Bytes Model.Wire Model.Build Spec.Walk Proofs.WireP Proofs.BuildP Proofs.NormP Proofs.WalkP
  Proofs.WalkAllP Proofs.WalkMsgP Model.BuildSw Proofs.HelloBaseP Proofs.HelloP.
Import ListNotations.
Open Scope N_scope.

(* THE FULL STATEMENT over all well-formed recipes: the independent decoder recovers from the
   bytes exactly the value the API calls built.  It is FALSE of the faithful model: known
   finding D10, refuted below. *)
Definition C03_full_statement : Prop :=
  forall m xid, wf_m m = true -> xid < 4294967296 -> size (build_m xid m) <= 65535 ->
  spec_decode (fst (marshal (build_m xid m))) = Some (canon (snd (marshal (build_m xid m)))).

(* refutation by a witness (replayed on the implementation by ./check C03: KNOWN-FINDING
   D10): a port statistics request with port 1 is read back as port 65536 *)
Theorem C03_refuted :
  let t := build_m 7 (MMultipart 4 0 (BPort 1)) in
  spec_decode (fst (marshal t)) = Some (T KMultipartReq [VN 4; VN 18; VN 24; VN 7; VN 4; VN 0] [T KPortStatsReq [VN 65536] []]) /\
  snd (marshal t) = T KMultipartReq [VN 4; VN 18; VN 24; VN 7; VN 4; VN 0] [T KPortStatsReq [VN 1] []].
Proof. exact c03_refuted_by_port_stats_request. Qed.
Print Assumptions C03_refuted.

(* THE THEOREM: for every message recipe outside D10 whose arguments fit their fields
   ([msg_ok]: every number below the width of its field, counts that match their lists,
   constructor codes that exist, masks as long as their values, sizes below 65000 bytes, a
   multipart type that matches its body; port / queue statistics requests are excluded) the
   independent decoder returns exactly the value that was built - every fixed field, every
   match field with and without mask, every instruction, action (all 26 kinds, conntrack
   nesting to any depth, NAT optional parts in presence-bit order, learn specs, note, set-field,
   reg-load2), bucket and nested bundled message, in order, with nothing left over.  [canon]
   is the identity except for three presentation differences of the wire reader (a note's
   padding belongs to the note, the port-mod address slot is seen at its 6 bytes, an empty
   packet-out payload is no payload).  By induction over recipes. *)
Theorem C03_built_messages_decode_to_themselves : forall m xid, msg_ok m = true -> xid < 4294967296 ->
  spec_decode (fst (marshal (build_m xid m))) = Some (canon (snd (marshal (build_m xid m)))).
Proof. exact spec_decode_built. Qed.
Print Assumptions C03_built_messages_decode_to_themselves.

(* the same for the elements on their own, in front of any following bytes *)
Theorem C03_actions : forall a, act_ok a = true -> forall fuel rest, (adepth a <= fuel)%nat ->
  sdec_action (S fuel) (wire (norm (build_a a)) ++ rest) = Some (canon (norm (build_a a)), rest).
Proof. exact sdec_built_action. Qed.
Print Assumptions C03_actions.

Theorem C03_match_fields : forall r rest, mf_ok r = true -> sdec_oxm (wire (build_mf r) ++ rest) = Some (build_mf r, rest).
Proof. exact sdec_built_mf. Qed.
Print Assumptions C03_match_fields.

Theorem C03_matches : forall fs rest, match_ok fs = true -> sdec_match (wire (build_match fs) ++ rest) = Some (build_match fs, rest).
Proof. exact sdec_built_match. Qed.
Print Assumptions C03_matches.

Theorem C03_instructions : forall i rest, instr_ok i = true ->
  sdec_instr (wire (norm (build_i i)) ++ rest) = Some (canon (norm (build_i i)), rest).
Proof. exact sdec_built_instr. Qed.
Print Assumptions C03_instructions.

Theorem C03_buckets : forall b rest, bucket_ok b = true ->
  sdec_bucket (wire (norm (build_b b)) ++ rest) = Some (canon (norm (build_b b)), rest).
Proof. exact sdec_built_bucket. Qed.
Print Assumptions C03_buckets.

(* non-vacuity: a rich recipe meets the hypothesis (and the theorem's conclusion, computed) *)
Definition C03_example_recipe : mrec :=
  MFlowMod 1 2 3 0 4 5 6 7 8 9 10
    [MFStd 1 (AB []) (Some (AB [])); MFReg 3 7 (Some (4%Z, 9%Z)); MFStd 7 (AB []) None; MFTunMeta 2 [x01; x02; x03] []]
    [IApply [(ACT [CtCommit; CtZoneImm 5] 0 [ANat [NatSNAT; NatIP4Min []; NatProtoMax 9]; ASetField (MFStd 3 (AN 2048) None)], false);
             (ADecTtlCntIds 3 [1; 2; 3], true); (ANote [x0a; x0b; x0c; x0d; x0e; x0f], false);
             (ALearn 1 2 3 4 5 6 7 8 [LSpec 0 16 ((0,0,false,0),0) ((1,3,false,4),0) [x01;x02]; LSpec 4 8 ((1,2,false,4),0) ((0,0,false,0),0) []], false)];
     IGoto 4; IWriteMeta 5 6].
Theorem C03_example_meets_hypothesis : msg_ok C03_example_recipe = true /\ msg_ok (MBundleAdd 1 2 3 C03_example_recipe) = true.
Proof. exact c03_example_ok. Qed.
Print Assumptions C03_example_meets_hypothesis.

(* ---- hello with any list of version-bitmap elements ([hello_tree xid es]: the elements and
   their bitmaps are exported fields, so a controller can build any such list): each element is
   padded to 64 bits and its length field counts header and bitmaps (fix D46) ---- *)
Theorem C03_hello_walk : forall xid es, bitmaps_ok es = true -> xid < 4294967296 ->
  spec_decode (fst (marshal (hello_tree xid es))) = Some (snd (marshal (hello_tree xid es))).
Proof. exact hello_walk. Qed.
Print Assumptions C03_hello_walk.
Theorem C03_hello_meets_hypothesis : bitmaps_ok [[18]; [1; 2]; []; [4294967295; 0; 7]] = true.
Proof. exact hello_example_wf. Qed.
