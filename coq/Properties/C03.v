(* C03 - encoded fields sit at their specified offsets with the supplied values.
   Statements only; every proof is [exact lemma]. *)
From Coq Require Import NArith ZArith List Bool.
From Coq.Strings Require Import Byte.
From LOF Require Import Base.Bytes Model.Wire Model.Build Spec.Walk Proofs.WireP Proofs.BuildP Proofs.NormP Proofs.WalkP.
Import ListNotations.
Open Scope N_scope.

(* THE FULL STATEMENT: the independent decoder recovers from the bytes exactly the value the
   API calls built.  It is FALSE of the faithful model (known finding D10, refuted below),
   and outside D10 it is proved only in part. *)
Definition C03_full_statement : Prop :=
  forall m xid, wf_m m = true -> xid < 4294967296 -> size (build_m xid m) <= 65535 ->
  spec_decode (fst (marshal (build_m xid m))) = Some (snd (marshal (build_m xid m))).

(* refutation by a witness (replayed on the implementation by ./check C03: KNOWN-FINDING
   D10): a port statistics request with port 1 is read back as port 65536 *)
Theorem C03_refuted :
  let t := build_m 7 (MMultipart 4 0 (BPort 1)) in
  spec_decode (fst (marshal t)) = Some (T KMultipartReq [VN 4; VN 18; VN 24; VN 7; VN 4; VN 0] [T KPortStatsReq [VN 65536] []]) /\
  snd (marshal t) = T KMultipartReq [VN 4; VN 18; VN 24; VN 7; VN 4; VN 0] [T KPortStatsReq [VN 1] []].
Proof. exact c03_refuted_by_port_stats_request. Qed.
Print Assumptions C03_refuted.

(* proved part: fixed-layout elements are recovered value for value (type, length, every
   argument at its width and byte order), in front of anything, alone and in lists *)
Theorem C03_fixed_actions_partial : forall a fuel rest, std_arec_ok a = true ->
  sdec_action (S fuel) (wire (build_a a) ++ rest) = Some (build_a a, rest).
Proof. exact sdec_built_std_action. Qed.
Print Assumptions C03_fixed_actions_partial.

Theorem C03_action_lists_partial : forall acts, forallb std_arec_ok acts = true ->
  forall fuel, (length (flat_map wire (map build_a acts)) < fuel)%nat ->
  sdec_actions fuel (flat_map wire (map build_a acts)) = Some (map build_a acts).
Proof. exact sdec_built_std_actions. Qed.
Print Assumptions C03_action_lists_partial.

(* the whole stack on one rich value: masked match fields, nested conntrack + NAT optional
   parts, learn specs, note, set-field, instructions in order *)
Theorem C03_full_stack_example :
  let m := MFlowMod 1 2 3 0 4 5 6 7 8 9 10
             [MFStd 1 (AB []) (Some (AB [])); MFReg 3 7 (Some (4%Z, 9%Z)); MFStd 7 (AB []) None; MFTunMeta 2 [x01; x02; x03] []]
             [IApply [(ACT [CtCommit; CtZoneImm 5] 0 [ANat [NatSNAT; NatIP4Min []; NatProtoMax 9]; ASetField (MFStd 3 (AN 2048) None)], false);
                      (ADecTtlCntIds 3 [1; 2; 3], true); (ANote [x0a; x0b; x0c; x0d; x0e; x0f], false);
                      (ALearn 1 2 3 4 5 6 7 8 [LSpec 0 16 ((0,0,false,0),0) ((1,3,false,4),0) [x01;x02]; LSpec 4 8 ((1,2,false,4),0) ((0,0,false,0),0) []], false)];
              IGoto 4; IWriteMeta 5 6] in
  let t := build_m 99 m in
  spec_decode (fst (marshal t)) = Some (snd (marshal t)).
Proof. exact full_stack_example. Qed.
