(* C10 - inbound stream: one intact message per complete frame, however bytes arrive.
   Statements only; every proof is [exact lemma]. *)
From stdpp Require Import list.
From Coq.Strings Require Import Byte.
From LOF Require Import Base.Bytes Model.Stream Model.StreamSys Proofs.StreamP Proofs.StreamSysP.

(* (a) the de-framer: only the concatenation of the chunks returned by Read matters; any
   sequence of well-formed frames (8 bytes or more, 16-bit length = size), cut into reads
   at arbitrary boundaries (also inside the header), yields exactly one buffer per frame,
   in order, holding exactly that frame's bytes, and ends in the initial state *)
Theorem C10_chunk_independence : forall chunks s, feed_chunks s chunks = feed s (List.concat chunks).
Proof. exact feed_chunks_concat. Qed.
Theorem C10_one_buffer_per_frame : forall frames chunks, Forall wellframed frames ->
  List.concat chunks = List.concat frames -> feed_chunks dinit chunks = (dinit, frames).
Proof. exact deframe_chunks. Qed.
Print Assumptions C10_one_buffer_per_frame.

(* bytes of an incomplete trailing frame are never handed over *)
Theorem C10_partial_frame_not_delivered : forall frames f part tail, Forall wellframed frames -> wellframed f ->
  f = part ++ tail -> tail <> [] -> snd (feed dinit (List.concat frames ++ part)) = frames.
Proof. exact deframe_with_partial. Qed.
Print Assumptions C10_partial_frame_not_delivered.

(* (b) the goroutines: in every reachable state of the reader / parser goroutines /
   consumer system - i.e. under every interleaving, for any number of parser goroutines and
   any channel capacities - each pool buffer has exactly one owner, and the messages
   delivered, in flight and still to come are, as a multiset, the parses of the frames *)
Theorem C10_invariants : forall (Frame Msg : Type) (parse : Frame -> Msg) capF capE capI frames pool n s,
  NoDup pool -> reach parse capF capE capI (init frames pool n) s ->
  owners s ≡ₚ pool /\ NoDup (owners s) /\ all_msgs parse s ≡ₚ map parse frames.
Proof. exact @inbound_invariants. Qed.
Print Assumptions C10_invariants.

(* nothing lost, duplicated, merged or invented: what the consumer has received is a
   sub-multiset of the parses of the complete frames ... *)
Theorem C10_delivered_are_frames : forall (Frame Msg : Type) (parse : Frame -> Msg) capF capE capI frames pool n s,
  NoDup pool -> reach parse capF capE capI (init frames pool n) s -> delivered s ⊆+ map parse frames.
Proof. exact @delivered_are_frames. Qed.
(* ... and when everything has drained, exactly one message per frame *)
Theorem C10_quiescence : forall (Frame Msg : Type) (parse : Frame -> Msg) capF capE capI frames pool n s,
  NoDup pool -> reach parse capF capE capI (init frames pool n) s ->
  input s = [] -> full s = [] -> inbound s = [] -> Forall (fun p => p = PIdle \/ exists b, p = PRet b) (parsers s) ->
  delivered s ≡ₚ map parse frames.
Proof. exact @quiescent_all_delivered. Qed.
Print Assumptions C10_quiescence.
