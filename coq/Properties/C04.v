(* C04 - parsed messages expose exactly what a conforming switch put on the wire.
   Statements only; every proof is [exact lemma]. *)
From Coq Require Import NArith ZArith List Bool.
From Coq.Strings Require Import Byte.
From LOF Require Import Base.Bytes Base.Res Model.Wire Model.Build Model.Proto Model.Parse Proofs.ParseSwP.
Import ListNotations.
Open Scope N_scope.

(* THE FULL STATEMENT: for every well-formed switch-side value t (of the kinds the library
   has a decoder for), the parser returns t from t's specification encoding.  It is FALSE of
   the faithful model for echo messages with a body (D37, refuted below) and for table / port /
   queue statistics replies (D13); elsewhere it is checked by the correspondence run on
   random conformant frames of every kind and proved here on concrete rich values. *)
Definition C04_full_statement (wf_sw : tree -> Prop) : Prop :=
  forall t, wf_sw t -> parse_top (wire t) = Ok t.

Theorem C04_examples : Forall (fun t => parse_top (wire t) = Ok t) sw_examples.
Proof. exact sw_examples_ok. Qed.
Print Assumptions C04_examples.

Theorem C04_hello_unknown_element_skipped :
  parse_top ([x04; x00; x00; x18; x00; x00; x00; x01] ++ [x00; x01; x00; x08; x00; x00; x00; x12] ++ [x00; x07; x00; x06; xaa; xbb; x00; x00])
  = Ok (T KHello [VN 4; VN 0; VN 24; VN 1] [T KHelloElemBitmap [VN 1; VN 8; VB [x00; x00; x00; x12]] []]).
Proof. exact hello_unknown_element_skipped. Qed.

Theorem C04_refuted_echo_body :
  parse_top [x04; x02; x00; x0c; x00; x00; x00; x01; xde; xad; xbe; xef] = Ok (T KHeaderOnly [VN 4; VN 2; VN 12; VN 1] []) /\
  wire (T KHeaderOnly [VN 4; VN 2; VN 12; VN 1] []) <> [x04; x02; x00; x0c; x00; x00; x00; x01; xde; xad; xbe; xef].
Proof. exact echo_body_dropped. Qed.
Print Assumptions C04_refuted_echo_body.
