(* C04 - parsed messages expose exactly what a conforming switch put on the wire.
   Statements only; every proof is [exact lemma]. *)
From Coq Require Import NArith ZArith List Bool.
From Coq.Strings Require Import Byte.
From LOF Require Import Base.Bytes Base.Res Model.Wire Model.Build Model.BuildSw Model.Proto Model.Parse Proofs.ParseSwP
  Proofs.ParseRtAllP Proofs.ParseRtAll4P Proofs.ParseSwAllP Proofs.ParseSwAll2P Proofs.ParseSwAll3P Proofs.ParseSwHelloP.
Import ListNotations.
Open Scope N_scope.

(* THE FULL STATEMENT: for every switch-side value of the kinds the library has a decoder for,
   the parser returns the value from its specification encoding.  It is FALSE of the faithful
   model for echo messages with a body (D37, refuted below) and for table / port / queue
   statistics replies (D13). *)
Definition C04_full_statement (wf_sw : swrec -> Prop) : Prop :=
  forall s xid, wf_sw s -> xid < 4294967296 -> parse_top (wire (sw_tree xid s)) = Ok (sw_view xid s).

(* THE THEOREM, for every switch-side value (Model/BuildSw.v: hello with any list of elements -
   version bitmaps of any number of words are returned in order, elements of other types are
   skipped -, header-only replies, get-config
   reply, error, experimenter error, port-status, features reply with any number of ports,
   flow-removed, packet-in, multipart replies description / aggregate / flow statistics with
   any number of records, instructions and actions, tlv-table reply) whose fields fit their
   widths ([sw_ok]: numbers below their field widths, fixed-size strings at their size, a match
   and instructions the decoder's table knows, sizes below 65000): the parser returns exactly
   the written value - for flow statistics with the instructions in their wire view, for a
   packet-in without data with the zero Ethernet value the library attaches.  A packet-in's
   payload is any packet that the packet decoder reads back to itself ([sw_payload_ok]; C09 is
   about those).  The frame [wire (sw_tree xid s)] is written with the specification's layout
   tables and lengths (struct ofp_port 64 bytes, ofp_flow_stats.length = the record's extent,
   ofp_match padded to 8 ...); the correspondence run checks that an independent Go encoder
   produces the same bytes. *)
Theorem C04_switch_values_parse_to_themselves : forall s xid, sw_ok s = true -> sw_payload_ok s -> xid < 4294967296 ->
  parse_top (wire (sw_tree xid s)) = Ok (sw_view xid s).
Proof. exact parse_switch_value. Qed.
Print Assumptions C04_switch_values_parse_to_themselves.

(* concrete rich values (no hypothesis left), by computation *)
Theorem C04_examples : Forall (fun t => parse_top (wire t) = Ok t) sw_examples.
Proof. exact sw_examples_ok. Qed.
Print Assumptions C04_examples.

Theorem C04_hello_meets_hypothesis :
  sw_ok (SHello [HBitmap [18]; HOther 7 [xaa; xbb]; HBitmap [1; 2]; HBitmap []; HOther 0 []]) = true.
Proof. exact hello_example_ok. Qed.

Theorem C04_hello_unknown_element_skipped :
  parse_top ([x04; x00; x00; x18; x00; x00; x00; x01] ++ [x00; x01; x00; x08; x00; x00; x00; x12] ++ [x00; x07; x00; x06; xaa; xbb; x00; x00])
  = Ok (T KHello [VN 4; VN 0; VN 24; VN 1] [T KHelloElemBitmap [VN 1; VN 8; VB [x00; x00; x00; x12]] []]).
Proof. exact hello_unknown_element_skipped. Qed.
Print Assumptions C04_hello_unknown_element_skipped.

Theorem C04_refuted_echo_body :
  parse_top [x04; x02; x00; x0c; x00; x00; x00; x01; xde; xad; xbe; xef] = Ok (T KHeaderOnly [VN 4; VN 2; VN 12; VN 1] []) /\
  wire (T KHeaderOnly [VN 4; VN 2; VN 12; VN 1] []) <> [x04; x02; x00; x0c; x00; x00; x00; x01; xde; xad; xbe; xef].
Proof. exact echo_body_dropped. Qed.
Print Assumptions C04_refuted_echo_body.

(* ---- conformant frames that are refused as a whole (known findings D49, D50): a packet-in
   with 8 bytes of packet data; a port-description multipart reply with one port ---- *)
Theorem C04_refuted_short_packet_in :
  parse_top ([x04; x0a; x00; x32; x00; x00; x00; x01] ++ [xff; xff; xff; xff; x00; x08; x00; x00] ++ zeros 8
             ++ [x00; x01; x00; x0c; x80; x00; x00; x04; x00; x00; x00; x07; x00; x00; x00; x00] ++ zeros 2
             ++ [x01; x02; x03; x04; x05; x06; x07; x08]) = Err.
Proof. exact short_packet_in_refused. Qed.
Theorem C04_refuted_port_desc_reply :
  parse_top ([x04; x13; x00; x50; x00; x00; x00; x01] ++ [x00; x0d; x00; x00; x00; x00; x00; x00] ++ zeros 64) = Err.
Proof. exact port_desc_reply_refused. Qed.
