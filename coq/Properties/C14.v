(* C14 - concurrent use is safe: unique transaction ids, no cross-talk.
   Statements only; every proof is [exact lemma].  The premise "the draw is an atomic add"
   and the inventory of shared variables are re-read from the source on every run
   (coq/GenProps/C14g.v against the generated LOFGen.SrcFacts). *)
From Coq Require Import NArith List Bool.
From LOF Require Import Model.SrcTypes Model.Xid Proofs.XidP.
Import ListNotations.
Open Scope N_scope.

(* for every schedule (interleaving of any number of goroutines), from any counter value:
   ids are pairwise distinct as long as at most 2^32 are drawn - also across the wrap *)
Theorem C14_atomic_ids_distinct : forall sched c, c < M32 -> N.of_nat (length sched) <= M32 ->
  NoDup (ids (run_atomic c sched)).
Proof. exact atomic_ids_distinct. Qed.
Print Assumptions C14_atomic_ids_distinct.

(* the k-th draw returns counter + k, whichever goroutine makes it *)
Theorem C14_ids_are_consecutive : forall sched c, c < M32 ->
  ids (run_atomic c sched) = map (fun k => (c + N.of_nat k) mod M32) (seq 1 (length sched)).
Proof. exact ids_atomic. Qed.

(* not vacuous in the kind of draw: a read-then-write counter yields a duplicate under the
   schedule read0 read1 write0 write1 *)
Theorem C14_nonatomic_counter_duplicates :
  ids (run_rw 10 (fun _ => 0) [SRead 0%nat; SRead 1%nat; SWrite 0%nat; SWrite 1%nat]) = [11; 11].
Proof. exact read_then_write_duplicates. Qed.

(* independent values processed on many goroutines: for every interleaving that lets every
   goroutine finish, each goroutine's outputs (ids erased) are what it produces alone *)
Theorem C14_no_cross_talk : forall (In Out : Type) (f : In -> N -> Out) (erase : Out -> Out),
  (forall i x y, erase (f i x) = erase (f i y)) ->
  forall sched c jobs t,
  (forall u, (length (filter (Nat.eqb u) sched) >= length (jobs u))%nat) ->
  outputs_of Out erase t (run_work In Out f c jobs sched) = sequential In Out f erase (jobs t).
Proof. exact work_independent. Qed.
Print Assumptions C14_no_cross_talk.
