(* C19 - base encoder/decoder primitives are symmetric and alignment-exact.
   Statements only; every proof is [exact lemma]. *)
From Coq Require Import ZArith NArith List Bool.
From Coq.Strings Require Import Byte.
From LOF Require Import Base.Bytes Base.Res Model.Ofbase Proofs.OfbaseP.
Import ListNotations.
Open Scope Z_scope.

(* any sequence of typed writes (8/16/32/64/128-bit, raw bytes, alignment skips), after
   any earlier output [pre] and before any later bytes [post], is returned unchanged and
   in order by the matching reads, the position ending exactly behind the last value *)
Theorem C19_write_then_read : forall ws pre post, forallb wr_wf ws = true ->
  read_all (map rd_of ws)
    {| dbuf := enc_run ws pre ++ post ; doff := Z.of_nat (length pre) ; dbase := 0 |} =
  Ok (map val_of ws,
      {| dbuf := enc_run ws pre ++ post ; doff := Z.of_nat (length (enc_run ws pre)) ; dbase := 0 |}).
Proof. exact write_read_all. Qed.
Print Assumptions C19_write_then_read.

(* each successful fixed-width read advances the position by exactly the width *)
Theorem C19_read_advances_by_width : forall r d v d', r <> RAlign -> read_one r d = Ok (v, d') ->
  doff d' = doff d + rd_width r /\ dbuf d' = dbuf d /\ dbase d' = dbase d.
Proof. exact read_one_advances. Qed.
Print Assumptions C19_read_advances_by_width.

(* alignment skip: next multiple of 8 counted from the start of the enclosing message,
   by at most 7 bytes, never backwards *)
Theorem C19_skip_align : forall d, 0 <= abs_pos d ->
  abs_pos (skip_align d) mod 8 = 0 /\ 0 <= doff (skip_align d) - doff d <= 7 /\
  dbase (skip_align d) = dbase d /\ dbuf (skip_align d) = dbuf d.
Proof. exact skip_align_spec. Qed.
Print Assumptions C19_skip_align.

(* a sliced decoder starts at its parent's absolute position, for every slicing offset,
   length and rewind; the parent moves past the slice *)
Theorem C19_sliced_decoder_position : forall d len rw c p, slice_decoder d len rw = Ok (c, p) ->
  abs_pos c = abs_pos d /\ abs_pos p = abs_pos d + (len - rw) /\
  Z.of_nat (length (dbuf c)) = len - rw /\ 0 <= len - rw.
Proof. exact slice_decoder_pos. Qed.
Print Assumptions C19_sliced_decoder_position.

(* a header from fewer than 8 bytes is an error; no input makes the header decoder panic *)
Theorem C19_header_short_is_error : forall d, dlength d < 8 -> header_decode d = Err.
Proof. exact header_short. Qed.
Print Assumptions C19_header_short_is_error.

Theorem C19_header_never_panics : forall d, header_decode d <> Panic /\ header_decode d <> Fuel.
Proof. exact header_never_panics. Qed.
Print Assumptions C19_header_never_panics.

Theorem C19_header_roundtrip : forall v t l x post,
  (v < 256)%N -> (t < 256)%N -> (l < 65536)%N -> (x < 4294967296)%N ->
  exists d', header_decode (NewDecoder (be8 v ++ be8 t ++ be16 l ++ be32 x ++ post)) =
  Ok ({| h_version := v ; h_type := t ; h_length := l ; h_xid := x |}, d') /\ doff d' = 8.
Proof. exact header_roundtrip. Qed.
Print Assumptions C19_header_roundtrip.
