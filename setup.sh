#!/bin/sh
# Build everything the checks need from files on disk only (offline).
set -e
cd "$(dirname "$0")"
export GOFLAGS=-mod=mod GOPROXY=off GOSUMDB=off GOTOOLCHAIN=local
mkdir -p .work evidence
# 1. Coq development: full .vo build from clean
cd coq
rm -f Makefile Makefile.conf .Makefile.d
find . -name '*.vo' -o -name '*.vok' -o -name '*.vos' -o -name '*.glob' -o -name '*.aux' | xargs rm -f
coq_makefile -f _CoqProject -o Makefile
( ulimit -s unlimited 2>/dev/null || true; timeout 3000 make -j16 ) > ../.work/coq_build.log 2>&1 || { tail -40 ../.work/coq_build.log; exit 1; }
cd ..
# 2. hygiene: nothing admitted, no axioms declared
if grep -rnE '\b(Admitted|admit|Axiom|Parameter|Conjecture)\b|Unset Guard|bypass_check' coq --include='*.v' | grep -v '^\S*:[0-9]*:\s*(\*' ; then
  echo "forbidden vernacular found" >&2; exit 1
fi
# 3. harness builds against /repo with the verif tag
cp /repo/go.sum harness/go.sum
( cd harness && go build -tags verif -o ../.work/harness.bin . )
echo "setup ok"
