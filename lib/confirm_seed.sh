#!/bin/sh
# confirm_seed.sh <dir with patch.diff demo_test.go> : in a scratch worktree of /repo (HEAD) confirm that the
# change builds, passes the existing tests, and that the demonstration fails with it and passes without it
d=$1
export GOFLAGS=-mod=mod GOPROXY=off GOSUMDB=off GOTOOLCHAIN=local
wt=/tmp/wtconf.$$
git -C /repo worktree add -q --detach $wt HEAD || exit 2
cd $wt
pkg=$(sed -n 's/^package \([a-zA-Z0-9_]*\).*/\1/p' $d/demo_test.go | head -1)
case $pkg in libOpenflow) sub=. ;; *) sub=$pkg ;; esac
res=""
git apply $d/patch.diff || res="$res patch-does-not-apply"
go build ./... || res="$res build-fails"
go test -vet=off -count=1 ./openflow13 ./protocol ./util ./common >/tmp/conf.$$.log 2>&1 || res="$res existing-tests-fail"
cp $d/demo_test.go $sub/zz_demo_test.go
if go test -vet=off -count=1 -timeout 120s -run 'TestM[0-9]' ./$sub >/tmp/conf.$$.log 2>&1; then res="$res demo-passes-with-change"; fi
git checkout -q -- . 
if ! go test -vet=off -count=1 -timeout 120s -run 'TestM[0-9]' ./$sub >/tmp/conf.$$.log 2>&1; then res="$res demo-fails-on-clean-tree"; fi
cd /; git -C /repo worktree remove --force $wt; rm -f /tmp/conf.$$.log
if [ -z "$res" ]; then echo "confirmed"; else echo "NOT confirmed:$res"; fi
