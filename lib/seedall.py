#!/usr/bin/env python3
"""seedall.py: apply every seeded change to /repo in turn, run the checks of its property (and related ones), undo it,
and write seeded/RESULTS.json (which checks report a violation).  /repo must be clean and no other check may run."""
import json, os, subprocess, sys, glob
ROOT = os.path.dirname(os.path.dirname(os.path.abspath(__file__)))
REL = {"C01": ["C01", "C06"], "C02": ["C02", "C03", "C06"], "C03": ["C03", "C02"], "C04": ["C04", "C05"], "C05": ["C05", "C04"],
       "C06": ["C06", "C01"], "C07": ["C07", "C08"], "C08": ["C08", "C07"], "C09": ["C09"], "C10": ["C10"], "C11": ["C11"],
       "C12": ["C12", "C10"], "C13": ["C13"], "C14": ["C14"], "C15": ["C15"], "C16": ["C16"], "C17": ["C17"], "C18": ["C18"], "C19": ["C19"]}
only = sys.argv[1:]
res = {}
if os.path.exists(os.path.join(ROOT, "seeded", "RESULTS.json")):
    res = json.load(open(os.path.join(ROOT, "seeded", "RESULTS.json")))
assert subprocess.run(["git", "-C", "/repo", "status", "--porcelain"], capture_output=True, text=True).stdout.strip() == "", "/repo not clean"
for d in sorted(glob.glob(os.path.join(ROOT, "seeded", "*"))):
    name = os.path.basename(d)
    if not os.path.isdir(d) or (only and name not in only):
        continue
    prop = json.load(open(os.path.join(d, "meta.json")))["property"]
    patch = os.path.join(d, "patch.diff")
    r = subprocess.run(["git", "-C", "/repo", "apply", patch], capture_output=True, text=True)
    if r.returncode != 0:
        res[name] = {"applies": False}
        print(name, "does not apply", flush=True)
        continue
    out = {}
    for p in REL.get(prop, [prop]):
        c = subprocess.run([os.path.join(ROOT, "check"), p], capture_output=True, text=True, cwd=ROOT)
        line = [l for l in c.stdout.splitlines() if l.startswith("VIOLATION")]
        out[p] = {"rc": c.returncode, "line": line[0] if line else ""}
    subprocess.run(["git", "-C", "/repo", "checkout", "--", "."])
    res[name] = {"applies": True, "checks": out}
    print(name, {p: (v["rc"], "no-input" if v["line"].endswith("no-failing-input-found") else "") for p, v in out.items()}, flush=True)
    json.dump(res, open(os.path.join(ROOT, "seeded", "RESULTS.json"), "w"), indent=1)
