"""Per-property configuration for ./check (texts that go into the evidence)."""

COMMON_TRUSTED = [
    "Coq 8.16.1 kernel (coqc), vm_compute (bytecode VM) for finite sweeps and for evaluating the model on harness cases; no native_compute",
    "no Axiom/Parameter/Admitted in the development (grep on every run); Print Assumptions of every property theorem is captured in coverage.print_assumptions",
    "hand-written Gallina model under coq/Model (modelled, not verified code); tie = differential correspondence run by this check",
    "Go harness /verif/harness (generators, observation printers, Uint63 transport), Go toolchain, recover()",
    "Corr/*.v evaluation glue and this driver's parsing of the verdict list",
]
COMMON_ASSUMPTIONS = [
    "the theorems are about coq/Model; the implementation is related to it by the correspondence run of this check only",
]

_P = {}


def get(pid):
    return _P.get(pid)


_P["C16"] = {
    "explanation": "Theorems C16_* (Properties/C16.v) over Model/NxUtil.v for all ranges/offsets/widths; "
                   "correspondence exhaustive over the property's whole domain (528 ranges, 65536 pairs/words).",
    "trusted_base": ["uint16/uint32 wrap-around and Go shift semantics as written in Model/NxUtil.v (shl/shr by >= width give 0)"],
    "assumptions": ["Go int is 64 bit; NXRange fields modelled as Z"],
}


_P["C18"] = {
    "explanation": "Theorems C18_* (Properties/C18.v): induction over any operation list from any state of Model/CtStates.v; "
                   "correspondence exhaustive over 6561 states x 16 ops and all sequences up to length 4, plus random longer sequences.",
    "trusted_base": ["the encoding of the NXM_NX_CT_STATE field (header 00 01 d3 08, value, mask) as written in Model/CtStates.v"],
    "assumptions": [],
}


_P["C19"] = {
    "explanation": "Theorems C19_* (Properties/C19.v) over Model/Ofbase.v: write/read symmetry by induction over any write script, "
                   "alignment algebra on Z for every base offset, header decoder total; correspondence on random scripts, "
                   "all slicing offsets mod 8 x rewinds, all short header inputs.",
    "trusted_base": ["bytes.Buffer append semantics and Go slice bounds rules as written in Model/Ofbase.v (exact-capacity buffers)"],
    "assumptions": ["decoder buffers have len == cap (a reslice beyond len panics); with spare capacity Go would read stale bytes instead"],
}


_P["C15"] = {
    "explanation": "Theorems C15_* (Properties/C15.v): the model registry agrees with the spec table Spec/OvsFields.v for every registered name "
                   "(finite sweep lifted by forallb_forall), lookup semantics, header pack/unpack inverse for all 2^32 words by algebra on N; "
                   "correspondence: the registry dumped from the running library equals the model's entry for entry, every name x mask x case variant.",
    "trusted_base": ["Spec/OvsFields.v as a faithful transcription of OpenFlow 1.3.5 table 12 and OVS meta-flow.h (written without access to the documents)",
                     "Go map read semantics; strings.ToUpper modelled for ASCII names only"],
    "assumptions": ["independence of lookup results is observed (mutate-then-look-up-again, 32 goroutines; -race in the thorough tier), not proved: the model is pure"],
    "race": {"thorough": True},
}


_P["C17"] = {
    "explanation": "Theorems C17_* (Properties/C17.v) over Model/NewMatchField.v for every registered name, value and window: placement, exact mask, "
                   "widths, value inside mask, errors for unrepresentable inputs, never a panic, register form = dedicated constructor's bytes; "
                   "correspondence over all registered fields and calling conventions with many Go argument types.",
    "trusted_base": ["math/big semantics (Lsh, And, BitLen, Bytes) as Z operations in Model/NewMatchField.v",
                     "Spec/OvsFields.v for the header of the expected field"],
    "assumptions": ["mask arguments in the correspondence stay below 2^40 in magnitude"],
}


_ENC_TRUSTED = ["Model/Wire.v layout tables and Model/Build.v constructor models, hand-written from the Go sources",
                "messages are assumed to fit in 65535 bytes (no uint16 wrap-around in Len())"]
_P["C06"] = {
    "explanation": "Theorems C06_* (Properties/C06.v) over Model/Wire.v + Model/Build.v; correspondence on random API recipes of every controller-side kind.",
    "trusted_base": _ENC_TRUSTED, "assumptions": [],
}

_P["C01"] = {
    "explanation": "Theorems C01_* (Properties/C01.v): for every API recipe of a controller-originated message the encoding starts with version 4, "
                   "the kind's type code, a length field equal to the bytes produced and to Len(); by induction over recipes (Proofs/BuildP.v) and "
                   "the size theorem glen_size; correspondence on random recipes incl. all commands 0..255 and bundle nesting.",
    "trusted_base": _ENC_TRUSTED, "assumptions": ["xids are read back from the built message, not predicted"],
}
_P["C13"] = {
    "explanation": "Theorems C13_* (Properties/C13.v): any history of Len()/MarshalBinary() calls on a consistent value returns constant results "
                   "(state-passing model of the write-backs of length fields, idempotence of norm); C13_decoded_values: the value the parser returns for the encoding of any controller-side recipe answers every operation sequence with one size and the bytes it was parsed from (Proofs/DecodedOpsP.v); correspondence on random op sequences of length 2..8 on built values, on values obtained by parsing their encodings, on Ethernet frames and on the record kinds of package protocol.",
    "trusted_base": _ENC_TRUSTED, "assumptions": ["Len() of NXActionCTNAT writes the rounded length back; the model folds that into MarshalBinary's write-back (same observable results)"],
}

_P["C02"] = {
    "explanation": "Spec/Walk.v: an independent decoder of the OF1.3/Nicira wire grammar (declared lengths, zero padding, legal codes, exact end). "
                   "Theorem C02_built_messages_walk (Properties/C02.v, Proofs/WalkAllP.v + WalkMsgP.v, induction over recipes): every message any recipe builds whose arguments fit their fields "
                   "(all 13 message kinds, all 26 action kinds with conntrack nesting to any depth, NAT, learn, note, set-field, match fields with masks, instructions, buckets, nested bundles) is accepted by the walker; "
                   "correspondence: every encoding the library produces for a random API recipe is walked; coverage.theorem_hypothesis_holds_on says how many generated cases the theorem speaks about.",
    "trusted_base": _ENC_TRUSTED + ["Spec/Walk.v tables as a faithful transcription of OpenFlow 1.3.5 section 7, OVS nicira-ext.h and the ONF bundle extension (written without access to the documents)"],
    "assumptions": ["the theorem's hypothesis msg_ok: numbers within their field widths, counts equal to list lengths, masks as long as values, sizes below 65000 bytes, multipart type matching its body; port/queue statistics requests excluded (D10)"],
}
_P["C03"] = {
    "explanation": "Theorem C03_built_messages_decode_to_themselves (Properties/C03.v): for every message recipe whose arguments fit their fields the independent decoder of Spec/Walk.v returns exactly the value the API calls built "
                   "(every fixed field, match field with/without mask, instruction, action, bucket, NAT optional parts in presence-bit order, learn specs, nested bundled message, list order), by induction over recipes; "
                   "C03_refuted: the port statistics request (finding D10); correspondence: the decoder's result on the library's bytes is compared with the built value for random recipes.",
    "trusted_base": _ENC_TRUSTED + ["Spec/Walk.v tables (see C02); canon: three presentation differences of the wire reader (note padding, port-mod address slot width, empty packet-out payload)"],
    "assumptions": ["the expected value is the model's built value (its fields come from the recipe's arguments by position)",
                    "the theorem's hypothesis msg_ok (see C02)"],
}

_PKT_TRUSTED = ["Model/Proto.v decoders hand-written from package protocol (exact-capacity buffers); encoders via Model/Wire.v layouts",
                "Model/Proto2.v (IGMP, DHCP, LLDP, stand-alone 802.1Q tag and IPv6 option: record values with decoder, encoder and reported size) hand-written from igmp.go, dhcp.go, lldp.go; bytes.Buffer / binary.Read of the DHCP and LLDP decoders are modelled as slice reads under the length guards; the harness presents the Read/Write kinds to the worker through a 12-line util.Message wrapper"]
_P["C08"] = {
    "explanation": "Theorems C08_* (Properties/C08.v): the modelled packet decoders (Ethernet+VLAN, ARP, IPv4, IPv6 + extension headers, ICMP, UDP, TCP; Model/Proto2.v: IGMP v1/v2/v3, DHCP and its options, LLDP TLVs and header, 802.1Q tag, IPv6 option) "
                   "return a value or an error on every byte string - no panic, no fuel exhaustion (every loop consumes input: extension-header chain, option walks, group records of a report); correspondence on truncations at every offset, "
                   "boundary bytes and mutations, each decode in a watchdog subprocess (time and heap limits).",
    "trusted_base": _PKT_TRUSTED, "assumptions": ["time/memory proportionality of the implementation is measured (3 s, 1 GiB heap, allocations within 512 bytes per input byte + 256 KiB, processor time within 30 us per input byte + 0.4 s); the theorems bound the iterations of every loop of the model by the input length"],
    "harness_timeout": {"quick": 900, "thorough": 3000},
}
_P["C09"] = {
    "explanation": "Theorems C09_* (Properties/C09.v): bit-lane lemmas for every packed group for all values; demultiplexing rules; C09_roundtrip (Proofs/PktRtP.v): for every packet recipe (Ethernet with or without 802.1Q tag, ARP, IPv4 with options, "
                   "IPv6 with any extension-header chain, ICMP, UDP, opaque) whose fields fit and whose selectors are consistent, decoding the encoding gives the packet back; C09_<kind>_roundtrip (Proofs/Proto2RtP.v) for IGMP v1/v2/v3 query, group record and report, DHCP with options, LLDP TLVs and header, 802.1Q tag, IPv6 option: well-formed values decode from their encoding and report the encoded size; "
                   "correspondence: frames through encode/decode/encode with the demultiplexing decided from the bytes by an independent function, lanes exhaustively.",
    "trusted_base": _PKT_TRUSTED, "assumptions": [],
}

_P["C14"] = {
    "explanation": "Theorems C14_* (Properties/C14.v): for every schedule of atomic draws the ids are pairwise distinct up to 2^32 draws, "
                   "work on independent values is interleaving-independent; the premises (the draw is atomic.AddUint32; no package-level variable is written "
                   "after init except atomically) are re-extracted from /repo's source by harness/srcfacts on every run and checked by GenProps/C14g.v; "
                   "correspondence: 2..64 goroutines drawing ids (also across the 32-bit wrap) and building/encoding/parsing under the race detector.",
    "trusted_base": ["harness/srcfacts (go/parser + go/ast; syntactic, conservative: anything it cannot classify blocks the theorem)",
                     "sync/atomic and the Go memory model; the Go race detector (sampled schedules)"],
    "assumptions": ["real schedules are sampled; the for-all-schedules claim is about the model whose atomicity premise is read from the source"],
    "gen_props": ["C14g"], "race": {"quick": True, "thorough": True},
}
_P["C15"]["gen_props"] = ["C15g"]
_P["C15"]["trusted_base"] = _P["C15"]["trusted_base"] + ["harness/srcfacts for 'lookup returns a fresh record' and 'the registry is never written' (GenProps/C15g.v)"]

_STREAM_TRUSTED = ["Model/Stream.v (de-framer, outbound) and Model/StreamSys.v (goroutine transition system) hand-written from util/stream.go; Go channel and bytes.Buffer semantics taken from the language specification",
                   "std++ 1.8 (list permutation solver) in the stream-system proofs",
                   "the scripted in-memory net.Conn of the harness; real schedules are sampled (GOMAXPROCS 1/2/4/16, injected yields)"]
_P["C10"] = {
    "explanation": "Theorems C10_* (Properties/C10.v): the de-framer is chunk-independent and yields exactly the frames (induction over frames, any chunking, partial trailing frame); "
                   "for every reachable state of the reader/parsers/consumer transition system (every interleaving) each buffer has one owner and delivered+in-flight = parses of the frames as multisets; "
                   "correspondence: the real MessageStream over a scripted connection with all chunkings, failures after any byte, frame sizes beyond the pool buffers.",
    "trusted_base": _STREAM_TRUSTED, "assumptions": ["partial: the theorem covers all interleavings of the model; Go's scheduler is sampled", "the error-channel clause (exactly one error on failure) is checked on the implementation only"],
    "harness_timeout": {"quick": 600, "thorough": 3000},
}
_P["C11"] = {
    "explanation": "Theorem C11_wire_is_whole_frames_in_order (Properties/C11.v): for any producers and any interleaving with the single writer the wire is the concatenation of whole encodings and each producer's order is kept "
                   "(invariant by induction over the trace); correspondence: 1..32 producers on the real MessageStream, every Write is one encoding, the wire re-framed is a merge of the sequences.",
    "trusted_base": _STREAM_TRUSTED, "assumptions": ["partial: real schedules are sampled"],
}

_DEC_TRUSTED = ["Model/Parse.v decoders hand-written from the Go sources (exact-capacity buffers: a reslice beyond the length panics; with spare capacity Go would read stale bytes instead)",
                "Model/Wire.v layouts for re-encoding"]
_P["C07"] = {
    "explanation": "Theorems C07_* (Properties/C07.v) over Model/Parse.v; correspondence: the entry point on truncations at every offset, corrupted length/type fields and all 256 type bytes, "
                   "each parse in a watchdog subprocess (3 s, 1 GiB).",
    "trusted_base": _DEC_TRUSTED, "assumptions": ["time/memory proportionality is measured by the per-case limits, not proved"],
    "harness_timeout": {"quick": 900, "thorough": 3400},
}
_P["C05"] = {
    "explanation": "Theorem C05_roundtrip (Properties/C05.v; Proofs/SegP.v, ParseRtAllP.v .. ParseRtAll7P.v, induction over recipes): for every controller-side message recipe whose arguments fit their fields "
                   "the parser entry point of Model/Parse.v returns the built value as a wire reader sees it (pview) and encoding that value again gives the original bytes - all action kinds, conntrack nesting, "
                   "match fields against the decoder's own width table, instructions, buckets, 13 message kinds, nested bundles; C05_switch_side_roundtrip and C05_flow_statistics_roundtrip (Proofs/ParseSwRtP.v): a switch-side value parsed from its conformant frame re-encodes to the frame; C05_roundtrip_examples by computation. "
                   "Correspondence: every kind Parse dispatches on (controller- and switch-side), encode -> Parse -> encode with a canonical field dump before/after; for controller-side cases the recipe rides along and the "
                   "theorem's prediction is compared with the implementation (coverage.theorem_hypothesis_holds_on).",
    "trusted_base": _DEC_TRUSTED, "assumptions": ["for switch-side messages the frame is the specification encoding of the value (Model/BuildSw.v); that the library's own encoder produces it is decided by the correspondence",
                                                   "hypothesis pmsg_ok: numbers within field widths, register numbers below 16 and tunnel-metadata numbers below 8 (the decoder's table), sizes below 65000; D10 bodies excluded"],
    "harness_timeout": {"quick": 900, "thorough": 3400},
}

_P["C04"] = {
    "explanation": "Theorem C04_switch_values_parse_to_themselves (Properties/C04.v; Model/BuildSw.v, Proofs/ParseSwAllP.v .. ParseSwAll3P.v, ParseSwHelloP.v): for every switch-side value of 13 kinds (hello with any list of version-bitmap and unknown elements, header-only replies, get-config reply, error, "
                   "experimenter error, port-status, features reply, flow-removed, packet-in, multipart replies desc / aggregate / flow with instructions, tlv-table reply) whose fields fit their widths the parser returns exactly the written value "
                   "from its specification encoding (packet-in relative to the packet decoder's reading of the payload); C04_refuted_echo_body (D37); C04_examples by computation. "
                   "Correspondence: spec-conformant switch messages from an independent Go encoder; the parsed fields compared with what was written; for cases with a recipe the model's conformant frame must equal the Go encoder's bytes "
                   "and the theorem's prediction must hold (coverage.theorem_hypothesis_holds_on).",
    "trusted_base": _DEC_TRUSTED + ["harness/spec_sw.go: the independent encoder of switch messages, written from OpenFlow 1.3.5 (OXM TLV / instruction / action bytes inside them come from the library's element encoders, which C02/C03 check against the specification)",
                                    "Model/BuildSw.v: switch-side values and their conformant frames (layout tables of Model/Wire.v)"],
    "assumptions": ["packet-in payloads are empty or complete Ethernet frames (a payload of 1..13 bytes is reported as an error by the library)",
                    "hello with unknown elements, echo with a body (D37), port/table/queue statistics (D13) and bundle-control replies have no recipe: correspondence and examples only"],
    "harness_timeout": {"quick": 900, "thorough": 3400},
}

_P["C12"] = {
    "explanation": "Theorems C12_* (Properties/C12.v) over Model/Ownership.v (heap of buffers, Own/View cells): a decoder whose sites all copy returns a message no later write can reach; one exercised site keeping a sub-slice "
                   "is exposed by the complement overwrite; the two are indistinguishable right after decoding. That every site of the library copies is re-extracted from /repo's source on every run "
                   "(harness/srcfacts: view_sites, closure of decoders reachable from Parse; GenProps/C12g.v) and exercised: every generated frame parsed from a slice inside a larger buffer that is then complemented and "
                   "overwritten with noise, all fields (private and pad fields too) and the re-encoding compared; histories of 60-180 frames through the real MessageStream so that every pool buffer is recycled while earlier messages are held; "
                   "the encoding observed after the overwrite is also the Parse model's encoding of the original bytes.",
    "trusted_base": _DEC_TRUSTED + ["Model/Ownership.v: Go slices as (buffer, offset, length) views or private copies; bytes.Buffer.Write and append(dst, src...) copy",
                                    "harness/srcfacts retention analysis (syntactic; sub-slice expressions rooted at a []byte parameter or a local alias, stored / appended as an element / returned / wrapped by NewBuffer, IP, HardwareAddr)",
                                    "reflection-based dump of every field (harness/canon.go)"],
    "assumptions": ["partial: the theorems are about the ownership model; that the library's decoders copy at every site is established by source extraction plus the overwrite runs, not by proof over Go semantics"],
    "gen_props": ["C12g"],
    "harness_timeout": {"quick": 900, "thorough": 3400},
}
