#!/usr/bin/env python3
"""dbg.py <workdir> <index>: show recipe, observed bytes and the model's bytes/len for one encode case"""
import sys, json, os, subprocess, re
wd, idx = sys.argv[1], int(sys.argv[2])
case = None
for line in open(os.path.join(wd, "cases.json")):
    d = json.loads(line)
    if d["i"] == idx:
        case = d["case"]
print("kind:", case["kind"]); print("recipe:", case["recipe"][:1500])
for r in case["results"]:
    print(" obs:", r)
v = """From LOF Require Import Corr.Enc Model.Wire Base.Bytes.
Open Scope N_scope.
Definition t := model_of %s.
Definition hex (l : list Byte.byte) := map Byte.to_N l.
Eval vm_compute in (glen t, glen (norm t), hex (wire (norm t))).
""" % case["recipe"]
open("/tmp/dbg_case.v", "w").write(v)
out = subprocess.run(["coqc", "-Q", "/verif/coq", "LOF", "/tmp/dbg_case.v"], capture_output=True, text=True)
txt = out.stdout + out.stderr
m = re.search(r"= \((\d+), (\d+),\s*\[(.*?)\]\)", txt, re.S)
if m:
    bs = [int(x) for x in re.findall(r"\d+", m.group(3))]
    print("model glen", m.group(1), "glen(norm)", m.group(2)); print("model bytes:", bytes(bs).hex())
else:
    print(txt[-2000:])
