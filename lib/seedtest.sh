#!/bin/sh
# seedtest.sh <patch> <property>... : apply a seeded change to /repo, run the checks, undo it
p=$1; shift
cd /repo && git apply "$p" || { echo "patch does not apply"; exit 2; }
cd /verif
for prop in "$@"; do
  out=$(./check $prop 2>&1); rc=$?
  echo "$prop rc=$rc $(echo "$out" | grep -c 'bad:') bad-kinds; $(echo "$out" | grep 'VIOLATION\|ok,' | head -2)"
done
git -C /repo checkout -- . 
