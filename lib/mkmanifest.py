#!/usr/bin/env python3
"""Regenerate MANIFEST.json from lib/props.py (claimed = configured properties)."""
import json, os, sys
sys.path.insert(0, os.path.dirname(os.path.abspath(__file__)))
import props
ROOT = os.path.dirname(os.path.dirname(os.path.abspath(__file__)))
ids = ["C%02d" % i for i in range(1, 20)]
claimed = [p for p in ids if props.get(p) is not None]
NA = getattr(props, "NOT_APPLICABLE", {})
hooks = json.load(open(os.path.join(ROOT, "lib", "hooks.json")))
checks = []
for pid in claimed:
    cfg = props.get(pid)
    checks.append({
        "property_id": pid,
        "quick_cmd": "./check %s --tier quick" % pid,
        "thorough_cmd": "./check %s --tier thorough" % pid,
        "evidence_file": "evidence/%s.json" % pid,
        "replay_cmd_template": "./check %s --replay {path}" % pid,
        "engine": "coq-model+correspondence",
        "level_claimed": {"category": "proof", "text": cfg.get("explanation", ""), "design_ref": cfg.get("design_ref", "DESIGN.md section 7, " + pid)},
        "level_note": "Trusted: Coq 8.16.1 kernel + vm_compute, the hand-written Gallina model and spec tables, the Go harness and transport (DESIGN.md section 8). " + " ".join(cfg.get("assumptions", [])),
        "technique": cfg.get("technique", "machine-checked proof in Coq about a Gallina model + differential correspondence check against the Go code"),
    })
m = {"version": 1, "setup_cmd": "./setup.sh", "hooks": hooks,
     "engines": [{"name": "coq-model+correspondence", "path": "check", "serves_properties": claimed,
                  "kind_free_text": "Coq 8.16.1 development under coq/ (model, spec, proofs, property theorems) + Go differential harness under harness/ + Python driver ./check"}],
     "checks": checks,
     "not_applicable": [{"property_id": p, "reason": NA.get(p, "not yet claimed: the check for this property is still under construction (plan in DESIGN.md section 7)")} for p in ids if p not in claimed],
     "notes": "See DESIGN.md. known_findings.json lists genuine defects (fixed by 'fix:' commits in /repo, or still present)."}
json.dump(m, open(os.path.join(ROOT, "MANIFEST.json"), "w"), indent=1)
print("claimed:", " ".join(claimed))
